//go:build verif

package harness

import (
	"github.com/theory/sqljson/path"
	"github.com/theory/sqljson/path/ast"
	"harness/nd"
)

var _ = reg("C03_TokenEnd", C03_TokenEnd)
var _ = reg("C03_Escapes", C03_Escapes)
var _ = reg("C03_Numbers", C03_Numbers)
var _ = reg("C03_Keywords", C03_Keywords)
var _ = reg("C03_Precedence", C03_Precedence)
var _ = reg("C03_Predicate", C03_Predicate)
var _ = reg("C03_Layout", C03_Layout)

// keyOf returns the text of the key in `$.<key> ...`.
func keyOf(p *path.Path) (string, bool) {
	n := leftmost(p.Root())
	c, ok := n.(*ast.ConstNode)
	if !ok || c.Const() != ast.ConstRoot {
		return "", false
	}
	k, ok := c.Next().(*ast.KeyNode)
	if !ok {
		return "", false
	}
	return k.Text(), true
}

// leftmost descends through the left operands of binary operators.
func leftmost(n ast.Node) ast.Node {
	for {
		b, ok := n.(*ast.BinaryNode)
		if !ok || isNilNode(b.Left()) {
			return n
		}
		n = b.Left()
	}
}

func varOf(p *path.Path) (string, bool) {
	n := leftmost(p.Root())
	v, ok := n.(*ast.VariableNode)
	if !ok {
		return "", false
	}
	return v.Text(), true
}

func strOf(p *path.Path) (string, bool) {
	n := leftmost(p.Root())
	v, ok := n.(*ast.StringNode)
	if !ok {
		return "", false
	}
	return v.Text(), true
}

// C03_TokenEnd: the value of a token does not depend on what follows it:
// end of input, white space, or another token.
func C03_TokenEnd() {
	kind := nd.Choice(3)
	var head string
	var get func(*path.Path) (string, bool)
	switch kind {
	case 0:
		head, get = "$.k", keyOf
	case 1:
		head, get = "$v", varOf
	case 2:
		head, get = "\"s", strOf
	}
	// two symbolic ASCII bytes (escapes included) after one fixed character
	tail := nd.ASCIIN(2)
	if kind != 2 {
		// a trailing backslash would escape the white space appended below
		nd.Assume(tail[1] != '\\')
	}
	t := head + tail
	if kind == 2 {
		t += "\""
	}
	tag := "C03/token-end/" + []string{"key", "variable", "string"}[kind]
	p0, e0 := path.Parse(t)
	p1, e1 := path.Parse(t + " ")
	p2, e2 := path.Parse(t + " == 1")
	p3, e3 := path.Parse(t + "\n")
	if e1 != nil || e3 != nil {
		// not a complete token followed by white space: nothing to compare
		return
	}
	v1, ok1 := get(p1)
	if !ok1 {
		return
	}
	nd.Cover(tag)
	nd.Assert(e0 == nil, tag+"/rejected-at-end-of-input")
	if e0 == nil {
		v0, ok0 := get(p0)
		nd.Assert(ok0 && v0 == v1, tag+"/value-differs-at-end-of-input")
	}
	v3, ok3 := get(p3)
	nd.Assert(ok3 && v3 == v1, tag+"/value-differs-before-newline")
	if e2 == nil {
		v2, ok2 := get(p2)
		nd.Assert(ok2 && v2 == v1, tag+"/value-differs-before-operator")
	}
}

func hexVal(c byte) int64 {
	switch {
	case c >= '0' && c <= '9':
		return int64(c - '0')
	case c >= 'a' && c <= 'f':
		return int64(c-'a') + 10
	}
	return int64(c-'A') + 10
}

func isHexDigits(s string) bool { return isDigits(s, 16) }

func encodeRune(r int64) string {
	switch {
	case r < 0x80:
		return string([]byte{byte(r)})
	case r < 0x800:
		return string([]byte{byte(0xC0 | r>>6), byte(0x80 | r&0x3F)})
	case r < 0x10000:
		return string([]byte{byte(0xE0 | r>>12), byte(0x80 | (r>>6)&0x3F), byte(0x80 | r&0x3F)})
	}
	return string([]byte{byte(0xF0 | r>>18), byte(0x80 | (r>>12)&0x3F), byte(0x80 | (r>>6)&0x3F), byte(0x80 | r&0x3F)})
}

// C03_Escapes: \b \f \n \r \t \v \xNN \uNNNN \u{N...} and surrogate pairs
// denote their code point (hex digits symbolic, two at a time), in strings
// and in keys.
func C03_Escapes() {
	d := nd.ASCIIN(2)
	nd.Assume(isHexDigits(d))
	h := hexVal(d[0])*16 + hexVal(d[1])
	var esc string
	var want int64
	form := nd.Choice(9)
	switch form {
	case 0:
		esc, want = "\\x"+d, h
	case 1:
		esc, want = "\\u00"+d, h
	case 2:
		esc, want = "\\u"+d+"41", h*256+0x41
	case 3:
		esc, want = "\\u{"+d+"}", h
	case 4:
		esc, want = "\\u{1"+d+"41}", 0x10000+h*256+0x41
	case 5:
		esc, want = "\\u{0000"+d+"}", h
	case 6:
		// surrogate pair: high D8xx low DCyy with xx = d (restricted), yy = 00
		esc, want = "\\uD8"+d+"\\uDC00", 0x10000+(0xD800+h-0xD800)*0x400
		nd.Assume(h < 0x100)
	case 7:
		simple := [][2]string{{"\\b", "\b"}, {"\\f", "\f"}, {"\\n", "\n"}, {"\\r", "\r"}, {"\\t", "\t"}, {"\\v", "\v"}, {"\\\"", "\""}, {"\\\\", "\\"}, {"\\/", "/"}}
		k := nd.Choice(len(simple))
		esc = simple[k][0]
		want = int64(simple[k][1][0])
	case 8:
		// lone or reversed surrogates must be rejected
		esc, want = "\\uDC"+d, -1
	}
	inKey := nd.Choice(2) == 1
	var src string
	if inKey {
		src = "$.\"a" + esc + "z\""
	} else {
		src = "\"a" + esc + "z\""
	}
	tag := "C03/escape"
	p, err := path.Parse(src)
	valid := want > 0 && !(want >= 0xD800 && want <= 0xDFFF) && want <= 0x10FFFF
	if form == 2 || form == 4 {
		valid = want > 0 && !(want >= 0xD800 && want <= 0xDFFF)
	}
	if !valid {
		nd.Assert(err != nil, tag+"/invalid-escape-accepted")
		return
	}
	nd.Assert(err == nil, tag+"/valid-escape-rejected")
	if err != nil {
		return
	}
	var got string
	var ok bool
	if inKey {
		got, ok = keyOf(p)
	} else {
		got, ok = strOf(p)
	}
	nd.Assert(ok && got == "a"+encodeRune(want)+"z", tag+"/denotes-wrong-code-point")
}

// C03_Numbers: decimal / hex / octal / binary / underscore spellings denote
// the sum of their digits times powers of the base (two symbolic digits).
func C03_Numbers() {
	forms := []struct {
		pre, mid, suf string
		base          int64
	}{
		{"", "", "", 10}, {"1", "", "", 10}, {"", "", "0", 10}, {"1_", "", "", 10}, {"", "_", "", 10},
		{"0x", "", "", 16}, {"0X", "", "", 16}, {"0x1", "", "", 16}, {"0x", "_", "", 16}, {"0x", "", "_f", 16},
		{"0o", "", "", 8}, {"0O", "", "", 8}, {"0o", "_", "7", 8},
		{"0b", "", "", 2}, {"0B", "", "", 2}, {"0b1", "_", "", 2}, {"0b", "", "01", 2},
	}
	f := forms[nd.Choice(len(forms))]
	d := nd.ASCIIN(2)
	nd.Assume(isDigits(d, int(f.base)))
	if f.base == 10 && f.pre == "" {
		nd.Assume(d[0] != '0')
	}
	lit := f.pre + d[:1] + f.mid + d[1:] + f.suf
	// reference value
	var want int64
	for i := 0; i < len(lit); i++ {
		c := lit[i]
		if c == '_' || (i == 1 && (c == 'x' || c == 'X' || c == 'o' || c == 'O' || c == 'b' || c == 'B')) {
			continue
		}
		if i == 0 && f.base != 10 {
			continue // the leading 0 of the radix prefix
		}
		want = want*f.base + hexVal(c)
	}
	p, err := path.Parse(lit)
	tag := "C03/number"
	nd.Assert(err == nil, tag+"/rejected "+f.pre)
	if err != nil {
		return
	}
	n, ok := p.Root().(*ast.IntegerNode)
	nd.Assert(ok, tag+"/not-an-integer-node")
	if ok {
		nd.Assert(n.Int() == want, tag+"/denotes-wrong-value")
	}
	// negative
	q, qerr := path.Parse("-" + lit)
	if qerr == nil {
		if m, ok := q.Root().(*ast.IntegerNode); ok {
			nd.Assert(m.Int() == -want, tag+"/negated-value")
		}
	}
	// the same spelling in every other place the grammar takes an integer
	intOf := func(n ast.Node) (int64, bool) {
		if i, ok := n.(*ast.IntegerNode); ok {
			return i.Int(), true
		}
		return 0, false
	}
	switch nd.Choice(5) {
	case 0:
		a, aerr := path.Parse("$.**{" + lit + "}")
		nd.Assert(aerr == nil, tag+"/any-level/rejected "+f.pre)
		if aerr == nil {
			an, ok := a.Root().Next().(*ast.AnyNode)
			nd.Assert(ok && int64(an.First()) == want && int64(an.Last()) == want, tag+"/any-level/denotes-wrong-value")
		}
	case 1:
		a, aerr := path.Parse("$.**{0 to " + lit + "}")
		nd.Assert(aerr == nil, tag+"/any-range/rejected "+f.pre)
		if aerr == nil {
			an, ok := a.Root().Next().(*ast.AnyNode)
			nd.Assert(ok && an.First() == 0 && int64(an.Last()) == want, tag+"/any-range/denotes-wrong-value")
		}
	case 2:
		a, aerr := path.Parse("$[" + lit + " to last]")
		nd.Assert(aerr == nil, tag+"/subscript/rejected "+f.pre)
		if aerr == nil {
			ix, ok := a.Root().Next().(*ast.ArrayIndexNode)
			nd.Assert(ok && len(ix.Subscripts()) == 1, tag+"/subscript/tree")
			if ok && len(ix.Subscripts()) == 1 {
				b, isB := ix.Subscripts()[0].(*ast.BinaryNode)
				nd.Assert(isB, tag+"/subscript/tree")
				if isB {
					v, isI := intOf(b.Left())
					nd.Assert(isI && v == want, tag+"/subscript/denotes-wrong-value")
				}
			}
		}
	case 3:
		a, aerr := path.Parse("$.decimal(" + lit + ")")
		nd.Assert(aerr == nil, tag+"/decimal-precision/rejected "+f.pre)
		if aerr == nil {
			b, isB := a.Root().Next().(*ast.BinaryNode)
			nd.Assert(isB, tag+"/decimal-precision/tree")
			if isB {
				v, isI := intOf(b.Left())
				nd.Assert(isI && v == want, tag+"/decimal-precision/denotes-wrong-value")
			}
		}
	case 4:
		a, aerr := path.Parse("$.time(" + lit + ")")
		nd.Assert(aerr == nil, tag+"/time-precision/rejected "+f.pre)
		if aerr == nil {
			u, isU := a.Root().Next().(*ast.UnaryNode)
			nd.Assert(isU, tag+"/time-precision/tree")
			if isU {
				v, isI := intOf(u.Operand())
				nd.Assert(isI && v == want, tag+"/time-precision/denotes-wrong-value")
			}
		}
	}
}

var kwTemplates = []struct {
	before, kw, after string
}{
	{"", "strict", " $.a"}, {"", "lax", " $.a"}, {"(1 == 1) ", "is", " unknown"}, {"(1 == 1) is ", "unknown", ""},
	{"", "exists", "($.a)"}, {"$.a ", "starts", " with \"a\""}, {"$.a starts ", "with", " \"a\""}, {"$.a ", "like_regex", " \"a\""},
	{"$.a like_regex \"a\" ", "flag", " \"i\""}, {"$[0 ", "to", " 1]"}, {"$[", "last", "]"}, {"$.a.", "abs", "()"}, {"$.a.", "type", "()"},
	{"$.a.", "keyvalue", "()"}, {"$.a.", "datetime", "()"}, {"$.a.", "timestamp_tz", "()"}, {"$.a.", "decimal", "(1)"}, {"$.a.", "string", "()"},
}

// C03_Keywords: keywords are recognised in any letter case; true, false and
// null only in lower case.
func C03_Keywords() {
	if nd.Choice(8) == 7 {
		// true / false / null: lower case only
		w := []string{"true", "false", "null"}[nd.Choice(3)]
		up := mixCase(w)
		p, err := path.Parse(up + " == 1")
		if up == w {
			nd.Assert(err == nil, "C03/keyword/literal-rejected")
			if err == nil {
				b, ok := p.Root().(*ast.BinaryNode)
				nd.Assert(ok, "C03/keyword/literal-tree")
				if ok {
					_, isConst := b.Left().(*ast.ConstNode)
					nd.Assert(isConst, "C03/keyword/literal-not-a-constant")
				}
			}
		} else {
			nd.Assert(err != nil, "C03/keyword/literal-accepted-in-upper-case")
		}
		return
	}
	t := kwTemplates[nd.Choice(len(kwTemplates))]
	ref, rerr := path.Parse(t.before + t.kw + t.after)
	nd.Assert(rerr == nil, "C03/keyword/template "+t.kw)
	if rerr != nil {
		return
	}
	p, err := path.Parse(t.before + mixCase(t.kw) + t.after)
	nd.Assert(err == nil, "C03/keyword/case-variant-rejected "+t.kw)
	if err == nil {
		nd.Assert(p.IsLax() == ref.IsLax() && eqNode(p.Root(), ref.Root()), "C03/keyword/case-variant-parses-differently "+t.kw)
	}
}

// mixCase upper-cases a forked subset of the letters of w.
func mixCase(w string) string {
	b := []byte(w)
	n := 0
	for i := range b {
		if b[i] >= 'a' && b[i] <= 'z' {
			n++
			if n <= 4 && nd.Choice(2) == 1 {
				b[i] -= 'a' - 'A'
			}
		}
	}
	return string(b)
}

var binOps = []struct {
	op   string
	prec int
}{
	{"+", 3}, {"-", 3}, {"*", 4}, {"/", 4}, {"%", 4},
}

// C03_Precedence: for every ordered pair of binary operators (and the
// boolean connectives), `a op1 b op2 c` nests as the documented precedence and
// left associativity say, with and without redundant parentheses, unary
// signs binding tightest; != is <>.
func C03_Precedence() {
	switch nd.Choice(4) {
	case 0:
		a, b := binOps[nd.Choice(5)], binOps[nd.Choice(5)]
		x := []string{"1", "$a", "-$a", "$.a.b"}[nd.Choice(4)]
		src := x + " " + a.op + " 2 " + b.op + " 3"
		var want string
		if a.prec >= b.prec {
			want = "(" + x + " " + a.op + " 2) " + b.op + " 3"
		} else {
			want = x + " " + a.op + " (2 " + b.op + " 3)"
		}
		sameTree("C03/precedence/arith "+a.op+b.op, src, want)
	case 1:
		conn := []string{"&&", "||"}
		a, b := conn[nd.Choice(2)], conn[nd.Choice(2)]
		src := "$a == 1 " + a + " $b == 2 " + b + " $c == 3"
		var want string
		if a == "&&" || b == "||" {
			want = "($a == 1 " + a + " $b == 2) " + b + " $c == 3"
		} else {
			want = "$a == 1 " + a + " ($b == 2 " + b + " $c == 3)"
		}
		sameTree("C03/precedence/bool "+a+b, src, want)
	case 2:
		// comparison binds looser than arithmetic, tighter than connectives
		c := cmpOpsAll[nd.Choice(7)]
		o := binOps[nd.Choice(5)].op
		sameTree("C03/precedence/cmp "+c+o, "$a "+o+" 1 "+c+" $b "+o+" 2 && $c "+c+" 3", "((($a "+o+" 1) "+c+" ($b "+o+" 2)) && ($c "+c+" 3))")
		sameTree("C03/precedence/ne", "$a != 1", "$a <> 1")
	case 3:
		// unary signs and redundant parentheses
		o := binOps[nd.Choice(5)].op
		sameTree("C03/precedence/unary "+o, "-$a "+o+" +$b", "(-$a) "+o+" (+$b)")
		sameTree("C03/precedence/parens "+o, "(($a)) "+o+" (($b "+o+" 1))", "$a "+o+" ($b "+o+" 1)")
		sameTree("C03/precedence/not", "!($a == 1) && $b == 2", "(!($a == 1)) && ($b == 2)")
	}
}

func sameTree(tag, a, b string) {
	p, perr := path.Parse(a)
	q, qerr := path.Parse(b)
	nd.Assert(perr == nil && qerr == nil, tag+"/rejected")
	if perr != nil || qerr != nil {
		return
	}
	nd.Assert(eqNode(p.Root(), q.Root()), tag+"/nests-wrongly")
}

// C03_Predicate: IsPredicate / PgIndexOperator report whether the top level
// is a predicate.
func C03_Predicate() {
	src := modePrefix() + poolPaths[nd.Choice(len(poolPaths))]
	p := parse(src)
	top := false
	switch n := p.Root().(type) {
	case *ast.BinaryNode:
		switch n.Operator() {
		case ast.BinaryAnd, ast.BinaryOr, ast.BinaryEqual, ast.BinaryNotEqual, ast.BinaryLess, ast.BinaryGreater,
			ast.BinaryLessOrEqual, ast.BinaryGreaterOrEqual, ast.BinaryStartsWith:
			top = n.Next() == nil
		}
	case *ast.UnaryNode:
		switch n.Operator() {
		case ast.UnaryNot, ast.UnaryIsUnknown, ast.UnaryExists:
			top = n.Next() == nil
		}
	case *ast.RegexNode:
		top = n.Next() == nil
	}
	nd.Assert(p.IsPredicate() == top, "C03/IsPredicate "+src)
	if top {
		nd.Assert(p.PgIndexOperator() == "@@", "C03/PgIndexOperator "+src)
	} else {
		nd.Assert(p.PgIndexOperator() == "@?", "C03/PgIndexOperator "+src)
	}
}

var wsForms = []string{" ", "\t", "\n", "\r", "  ", "/* c */", " /* a */ /* b */ ", "/**/", "/* * / */"}

// C03_Layout: white space and comments between any two tokens do not change
// the tree.
func C03_Layout() {
	toks := [][]string{
		{"$", ".", "a", "[", "0", "to", "last", "]", "?", "(", "@", ".", "b", "==", "1", "&&", "exists", "(", "@", ".", "c", ")", ")"},
		{"strict", "$", ".", "a", ".", "abs", "(", ")", "+", "1.5", "*", "-", "$x"},
		{"$", ".", "**", "{", "1", "to", "last", "}", ".", "k", "like_regex", "\"a\"", "flag", "\"i\""},
		{"(", "$", ".", "a", "==", "1", ")", "is", "unknown"},
	}
	ts := toks[nd.Choice(len(toks))]
	ref := ""
	for i, t := range ts {
		if i > 0 {
			ref += " "
		}
		ref += t
	}
	pos := nd.Choice(len(ts) + 1)
	ws := wsForms[nd.Choice(len(wsForms))]
	src := ""
	for i, t := range ts {
		if i == pos {
			src += ws
		} else if i > 0 {
			src += " "
		}
		src += t
	}
	if pos == len(ts) {
		src += ws
	}
	sameTree("C03/layout", src, ref)
}

var _ = reg("C03_BareKeys", C03_BareKeys)

// continuation characters of identifiers outside ASCII, one or more per
// general category of XID_Continue (Ll Lu Lo Lm Nl Mn Mc Nd Pc and
// Other_ID_Continue), BMP and supplementary
var identContinue = []rune{
	0x00E9, 0x0394, 0x4E2D, 0x02B0, 0x2160, 0x0301, 0x0E37, 0x093E, 0x0BC6, 0x0663, 0xFF11, 0x203F, 0x2040, 0xFE33,
	0x00B7, 0x0387, 0x1369, 0x19DA, 0x1D7CE, 0x1E8D0, 0x10400, 0x20000, 0xE0100, 0x1D165,
}

// C03_BareKeys: a member key spelt bare, quoted and with a \u{…} escape
// denotes the same path, for identifier characters outside ASCII in second
// and later positions (every category of XID_Continue by sample).
func C03_BareKeys() {
	r := identContinue[nd.Choice(len(identContinue))]
	pre := []string{"a", "é", "a1", "_"}[nd.Choice(4)]
	suf := []string{"", "b"}[nd.Choice(2)]
	key := pre + string(r) + suf
	tag := "C03/bare-key"
	q, qerr := path.Parse("$.\"" + key + "\"")
	nd.Assert(qerr == nil, tag+"/quoted-rejected")
	if qerr != nil {
		return
	}
	b, berr := path.Parse("$." + key)
	nd.Assert(berr == nil, tag+"/bare-rejected")
	if berr == nil {
		nd.Assert(b.String() == q.String(), tag+"/bare-differs-from-quoted")
	}
	hex := "0123456789abcdef"
	esc := ""
	for x, started := uint32(r), false; ; {
		// most significant nibble first
		for sh := 20; sh >= 0; sh -= 4 {
			n := (x >> uint(sh)) & 0xF
			if n != 0 || started || sh == 0 {
				esc += string(hex[n])
				started = true
			}
		}
		break
	}
	e, eerr := path.Parse("$." + pre + "\\u{" + esc + "}" + suf)
	nd.Assert(eerr == nil, tag+"/escaped-rejected")
	if eerr == nil {
		nd.Assert(e.String() == q.String(), tag+"/escaped-differs-from-quoted")
	}
	// and as a variable name
	v, verr := path.Parse("$" + key)
	vq, vqerr := path.Parse("$\"" + key + "\"")
	nd.Assert(verr == nil && vqerr == nil, tag+"/variable-rejected")
	if verr == nil && vqerr == nil {
		nd.Assert(v.String() == vq.String(), tag+"/variable-differs-from-quoted")
	}
}

var _ = reg("C03_Surrogates", C03_Surrogates)

// C03_Surrogates: two adjacent \u escapes in the surrogate range (the second
// hex digit of each symbolic: D8..DF), in the \uXXXX and \u{XXXX} forms, in a
// string, a key and a variable: accepted exactly for a high surrogate
// followed by a low one, and then denoting the code point of the pair; a
// surrogate next to an ordinary escape is rejected.
func C03_Surrogates() {
	d := nd.ASCIIN(2)
	nd.Assume(isHexDigits(d))
	h1, h2 := hexVal(d[0]), hexVal(d[1])
	nd.Assume(h1 >= 8 && h2 >= 8)
	u1 := int64(0xD000) + h1*0x100 + 0x3D
	u2 := int64(0xD000) + h2*0x100 + 0x04
	e := func(hex string, brace bool) string {
		if brace {
			return "\\u{" + hex + "}"
		}
		return "\\u" + hex
	}
	b1, b2 := nd.Choice(2) == 1, nd.Choice(2) == 1
	first := e("D"+d[:1]+"3D", b1)
	second := e("D"+d[1:]+"04", b2)
	if nd.Choice(4) == 3 {
		second = e("0041", b2) // a surrogate followed by an ordinary escape
		u2 = 0x41
	}
	esc := first + second
	var src string
	kind := nd.Choice(3)
	switch kind {
	case 0:
		src = "\"a" + esc + "z\""
	case 1:
		src = "$.\"a" + esc + "z\""
	case 2:
		src = "$\"a" + esc + "z\""
	}
	p, err := path.Parse(src)
	tag := "C03/surrogates"
	valid := u1 >= 0xD800 && u1 <= 0xDBFF && u2 >= 0xDC00 && u2 <= 0xDFFF
	if !valid {
		nd.Assert(err != nil, tag+"/invalid-pair-accepted")
		return
	}
	nd.Assert(err == nil, tag+"/valid-pair-rejected")
	if err != nil {
		return
	}
	want := "a" + encodeRune(0x10000+(u1-0xD800)*0x400+(u2-0xDC00)) + "z"
	var got string
	var ok bool
	switch kind {
	case 0:
		got, ok = strOf(p)
	case 1:
		got, ok = keyOf(p)
	case 2:
		if v, isV := p.Root().(*ast.VariableNode); isV {
			got, ok = v.Text(), true
		}
	}
	nd.Assert(ok && got == want, tag+"/denotes-wrong-code-point")
}
