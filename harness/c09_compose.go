//go:build verif

package harness

import (
	"github.com/theory/sqljson/path/exec"
	"harness/nd"
)

var _ = reg("C09_Split", C09_Split)
var _ = reg("C09_Variable", C09_Variable)
var _ = reg("C09_Context", C09_Context)
var _ = reg("C09_NestedCurrent", C09_NestedCurrent)

var nestedCurrentPaths = []string{
	"$ ? (@.a ? (@.b > 0).a[@.b] > 0)",
	"$[*] ? (@.a ? (@.b > 0).a[@.b] > 0).b",
	"$ ? (@.a ? (exists(@.a)).a[@.b] == 1)",
	"$ ? (@.a ? (@.b > 0).b == @.b)",
	"$ ? (@.a[*] ? (@ > 0)[@.b] > 0)",
}

// C09_NestedCurrent: after a nested filter that is followed by further steps
// (a subscript that uses @ among them), @ again denotes the outer item.
func C09_NestedCurrent() {
	src := modePrefix() + nestedCurrentPaths[nd.Choice(len(nestedCurrentPaths))]
	leaf := nd.Spec{Kinds: nd.KFloat}
	arr := func() any {
		n := nd.Choice(3)
		a := make([]any, n)
		for i := range a {
			a[i] = nd.JSON(leaf)
		}
		return a
	}
	var inner any
	switch nd.Choice(3) {
	case 0:
		inner = map[string]any{"a": arr(), "b": nd.JSON(leaf)}
	case 1:
		inner = arr()
	case 2:
		inner = map[string]any{"a": nd.JSON(leaf)}
	}
	var doc any = map[string]any{"a": inner, "b": nd.JSON(leaf)}
	if nd.Choice(2) == 1 {
		doc = []any{doc, map[string]any{"b": nd.JSON(leaf)}}
	}
	checkAgainstRef("C09/nested-current "+src, src, doc, nil, "C09/null-element-dropped")
}

var compSteps = []string{
	".a", ".b", ".*", "[*]", "[0]", "[last]", "[0 to 1]", ".**",
	" ? (@.a == 1)", " ? (exists(@.b))", ".size()", ".type()", ".abs()", ".double()", ".floor()",
}

// genSteps draws n step indices; ok is false for chains the property excludes
// (steps following .** in strict mode).
func genSteps(n int, strict bool) ([]int, bool) {
	idx := make([]int, n)
	afterAny := false
	for i := range idx {
		idx[i] = nd.Choice(len(compSteps))
		if afterAny && strict {
			return nil, false
		}
		if idx[i] == 7 {
			afterAny = true
		}
	}
	return idx, true
}

func joinSteps(idx []int) string {
	s := ""
	for _, k := range idx {
		s += compSteps[k]
	}
	return s
}

func compDocSpec() nd.Spec {
	if nd.Thorough() {
		return nd.Spec{Kinds: nd.KNull | nd.KFloat | nd.KString | nd.KArray | nd.KObject, Depth: 3, Width: 2, StrLen: 1, Keys: []string{"a", "b"}}
	}
	return nd.Spec{Kinds: nd.KNull | nd.KFloat | nd.KArray | nd.KObject, Depth: 2, Width: 2, Keys: []string{"a", "b"}}
}

// C09_Split: Query(P S, doc) is the concatenation over x in Query(P, doc) of
// Query($ S, x), failing where the first of those fails.
func C09_Split() {
	strict := nd.Choice(2) == 1
	mode := ""
	if strict {
		mode = "strict "
	}
	total := 2
	if nd.Thorough() {
		total = 3
	}
	n := 2 + nd.Choice(total-1)
	idx, ok := genSteps(n, strict)
	if !ok {
		return
	}
	cut := 1 + nd.Choice(n-1)
	P, S := joinSteps(idx[:cut]), joinSteps(idx[cut:])
	doc := nd.JSON(compDocSpec())
	tag := "C09/split " + mode + "$" + P + " | " + S
	whole, werr := parse(mode+"$"+P+S).Query(bg, doc)
	pre, perr := parse(mode+"$"+P).Query(bg, doc)
	if perr != nil {
		nd.Assert(errClass(werr) == errClass(perr), tag+"/prefix-fails-but-whole-differs")
		return
	}
	var cat []any
	for _, x := range pre {
		r, err := parse(mode+"$"+S).Query(bg, x)
		if err != nil {
			nd.Assert(errClass(werr) == errClass(err), tag+"/suffix-fails-but-whole-differs")
			return
		}
		cat = append(cat, r...)
	}
	nd.Assert(werr == nil, tag+"/whole-fails-though-parts-succeed")
	if werr == nil {
		nd.Assert(sameSeq(whole, cat, true), tag+"/items")
	}
}

// C09_Variable: a path that starts from a variable returns what the same
// steps return from $ when the document is that value.
func C09_Variable() {
	strict := nd.Choice(2) == 1
	mode := ""
	if strict {
		mode = "strict "
	}
	idx, ok := genSteps(1+nd.Choice(2), strict)
	if !ok {
		return
	}
	S := joinSteps(idx)
	x := nd.JSON(compDocSpec())
	a, aerr := parse(mode+"$v"+S).Query(bg, nil, exec.WithVars(exec.Vars{"v": x}))
	b, berr := parse(mode+"$"+S).Query(bg, x)
	tag := "C09/variable " + mode + S
	nd.Assert(errClass(aerr) == errClass(berr), tag+"/error")
	if aerr == nil && berr == nil {
		nd.Assert(sameSeq(a, b, true), tag+"/items")
	}
}

var ctxPaths = []string{
	"$[*] ? (@.a[last] > 0 && @.b == 1)",
	"$[*] ? (@.a ? (@ > 1) > 0 && @.b == 1)",
	"$[*] ? (exists(@.a ? (@ == 1)) && @.b == 1)",
	"$[last - $[0][last]]",
	"$[$[1][last], last]",
	"$[0 to $[last].size()]",
	"$[*] ? (@ == $[last])",
	"$.a ? (@ ? (@ > 0) > 1 || @ == $.b)",
	"$[*] ? (@.a ? ($.b == 1) == @.b)",
	"$[$[0] ? (@ > 0) to last]",
}

// C09_Context: @, last and $ denote the right item after nested filters and
// nested subscripts (the reference evaluator passes its environment by value).
func C09_Context() {
	src := modePrefix() + ctxPaths[nd.Choice(len(ctxPaths))]
	depth := 2
	if nd.Thorough() {
		depth = 3
	}
	doc := nd.JSON(nd.Spec{Kinds: nd.KFloat | nd.KArray | nd.KObject, Depth: depth, Width: 2, Keys: []string{"a", "b"}})
	checkAgainstRef("C09/context "+src, src, doc, nil, "C09/null-element-dropped")
}

var _ = reg("C09_Deep", C09_Deep)

var deepSteps = []string{".a", ".*", "[*]", "[0]", " ? (exists(@.a))", ".size()", ".**{1}"}

// C09_Deep: the splitting law on narrow documents nested four containers
// deep (array in object in array in object ...), where lax unwrapping of the
// next step has to be passed along by each step kind.
func C09_Deep() {
	strict := nd.Choice(2) == 1
	mode := ""
	if strict {
		mode = "strict "
	}
	n := len(deepSteps)
	if strict {
		n-- // steps following .** in strict mode are excluded
	}
	P := deepSteps[nd.Choice(n)]
	S := deepSteps[nd.Choice(len(deepSteps)-1)]
	if nd.Choice(2) == 1 {
		S += deepSteps[nd.Choice(len(deepSteps)-1)]
	}
	if strict && P == ".**{1}" {
		return
	}
	doc := nd.JSON(nd.Spec{Kinds: nd.KFloat | nd.KArray | nd.KObject, Depth: 4, Width: 1, Keys: []string{"a"}})
	tag := "C09/deep " + mode + "$" + P + " | " + S
	whole, werr := parse(mode+"$"+P+S).Query(bg, doc)
	pre, perr := parse(mode+"$"+P).Query(bg, doc)
	if perr != nil {
		nd.Assert(errClass(werr) == errClass(perr), tag+"/prefix-fails-but-whole-differs")
		return
	}
	var cat []any
	for _, x := range pre {
		r, err := parse(mode+"$"+S).Query(bg, x)
		if err != nil {
			nd.Assert(errClass(werr) == errClass(err), tag+"/suffix-fails-but-whole-differs")
			return
		}
		cat = append(cat, r...)
	}
	nd.Assert(werr == nil, tag+"/whole-fails-though-parts-succeed")
	if werr == nil {
		nd.Assert(sameSeq(whole, cat, false), tag+"/items")
	}
}

var _ = reg("C09_AbsorbedError", C09_AbsorbedError)

var absorbedPaths = []string{
	"$ ? ((exists(@.a ? (@ > $missing))) is unknown && @.b == 1)",
	"$[*] ? ((exists(@.a ? (@ > $missing))) is unknown && @.b > 0)",
	"$[*] ? ((@.a ? (@ == $missing) == 1) is unknown && @.b > 0)",
	"$[*] ? ((@.a ? (@ == $missing) == 1) is unknown || @.b > 0)",
	"$ ? (@.b == 1 && (exists(@.a ? (@ > $missing))) is unknown)",
	"strict $[*] ? ((@.a == $missing) is unknown).c",
	"$[*] ? ((@.a[last] == $missing) is unknown && @.a[last] > 0)",
	"$[*] ? ((exists(@.a ? (@ > $missing))) is unknown) ? (@.b > 0)",
}

// C09_AbsorbedError: the bindings (@, last, the verbose switch) after a
// nested construct that ended in a non-suppressible error which `is unknown`
// then absorbed - the one way evaluation continues after such an error.
// (That `is unknown` absorbs it is the listed finding of C11; the expected
// result is the reference evaluator's under that model, or without it.)
func C09_AbsorbedError() {
	src := absorbedPaths[nd.Choice(len(absorbedPaths))]
	if src[0] != 's' {
		src = modePrefix() + src
	}
	leaf := nd.Spec{Kinds: nd.KFloat}
	mk := func() any {
		m := map[string]any{}
		if nd.Choice(2) == 1 {
			m["a"] = []any{nd.JSON(leaf)}
		} else {
			m["a"] = nd.JSON(leaf)
		}
		if nd.Choice(2) == 1 {
			m["b"] = nd.JSON(leaf)
		}
		if nd.Choice(2) == 1 {
			m["c"] = nd.JSON(leaf)
		}
		return m
	}
	var doc any
	if nd.Choice(2) == 0 {
		doc = mk()
	} else {
		doc = []any{mk(), mk()}
	}
	p := parse(src)
	got, gerr := p.Query(bg, doc)
	ge := errClass(gerr)
	tag := "C09/absorbed-error " + src
	want, werr, open, _ := refQuery(p.AST, doc, nil)
	if open {
		nd.Cover(tag + "/open")
		return
	}
	if ge == werr && (werr != eNone || sameSeq(got, want, false)) {
		return
	}
	w2, e2, open2, _ := refQueryOpt2(p.AST, doc, nil, false, true)
	if open2 {
		nd.Cover(tag + "/open")
		return
	}
	if ge == e2 && (e2 != eNone || sameSeq(got, w2, false)) {
		nd.Assert(false, "C09/is-unknown-swallows-unknown-variable")
		return
	}
	if ge != e2 {
		nd.Assert(false, tag+"/error-class")
		return
	}
	nd.Assert(false, tag+"/items")
}
