//go:build verif

package harness

import (
	"harness/nd"
)

var _ = reg("C07_Chains", C07_Chains)
var _ = reg("C07_Position", C07_Position)

var accSteps = []string{
	".a", ".b", ".*", "[*]", "[0]", "[1]", "[last]", "[0 to 1]", "[0,1]", ".**",
	" ? (@.a == 1)", " ? (exists(@.a))", " ? (@[*] > 0)",
}

// genChain builds an accessor/filter chain of 1..max steps.
func genChain(max int) (string, bool) {
	n := 1 + nd.Choice(max)
	src := "$"
	afterAny := false
	for i := 0; i < n; i++ {
		k := nd.Choice(len(accSteps))
		st := accSteps[k]
		if afterAny && (k >= 4 && k <= 8) {
			// subscripts below .** in strict mode: not covered by the property
			return "", false
		}
		if k == 9 {
			afterAny = true
		}
		src += st
	}
	return src, true
}

func docSpec() nd.Spec {
	if nd.Thorough() {
		return nd.Spec{Kinds: nd.KNull | nd.KFloat | nd.KString | nd.KArray | nd.KObject, Depth: 3, Width: 2, StrLen: 1, Keys: []string{"a", "b"}}
	}
	return nd.Spec{Kinds: nd.KNull | nd.KFloat | nd.KArray | nd.KObject, Depth: 2, Width: 2, Keys: []string{"a", "b"}}
}

// C07_Chains: the same accessor/filter chain in lax and in strict mode on
// every document shape within the bound: lax never errs; strict errs with
// the suppressible class exactly when the reference walk meets a structural
// mismatch, wherever it sits; items agree with the reference in both modes.
func C07_Chains() {
	max := 2
	if nd.Thorough() {
		max = 3
	}
	src, ok := genChain(max)
	if !ok {
		return
	}
	doc := nd.JSON(docSpec())
	// lax
	lp := parse(src)
	lgot, lerr := lp.Query(bg, doc)
	nd.Assert(lerr == nil, "C07/lax-must-not-err "+src)
	lwant, lwerr, lopen, lperm := refQueryOpt(lp.AST, doc, nil, true)
	if !lopen && lerr == nil {
		nd.Assert(lwerr == eNone, "C07/ref-lax-errs "+src)
		if lwerr == eNone {
			nd.Assert(sameSeq(lgot, lwant, lperm), "C07/lax-items "+src)
		}
	}
	// strict
	sp := parse("strict " + src)
	sgot, serr := sp.Query(bg, doc)
	swant, swerr, sopen, sperm := refQueryOpt(sp.AST, doc, nil, true)
	if sopen {
		return
	}
	if serr != nil {
		nd.Assert(isVerbose(serr), "C07/strict-error-class "+src)
	}
	if swerr != eNone {
		nd.Assert(serr != nil, "C07/strict-must-report "+src)
	} else {
		nd.Assert(serr == nil, "C07/strict-spurious-error "+src)
		if serr == nil {
			nd.Assert(sameSeq(sgot, swant, sperm), "C07/strict-items "+src)
		}
	}
}

// C07_Position: the offending element at every position of an array and of
// a subscript list: strict $[i,j].a / $[*].a / $[i to j].a on arrays whose
// elements are lazily objects-with-a, objects-without-a, or non-objects.
func C07_Position() {
	forms := []string{"$[0,1].a", "$[1,0].a", "$[*].a", "$[0 to 1].a", "$[0,1,2].a", "$[0][*]", "$[0,1][*]", "$[0,1].*"}
	src := forms[nd.Choice(len(forms))]
	n := nd.Choice(4)
	arr := make([]any, n)
	for i := range arr {
		arr[i] = nd.JSON(nd.Spec{Kinds: nd.KFloat | nd.KObject | nd.KArray, Depth: 1, Width: 1, Keys: []string{"a"}})
	}
	checkAgainstRef("C07/position/strict "+src, "strict "+src, arr, nil, "")
	lp := parse(src)
	_, lerr := lp.Query(bg, arr)
	nd.Assert(lerr == nil, "C07/position/lax-must-not-err "+src)
}

var _ = reg("C07_Deep", C07_Deep)

var deepAcc = []string{".a", ".*", "[*]", "[0]", "[last]", " ? (exists(@.a))", " ? (@[*] > 0)"}

// C07_Deep: chains of two or three accessors on narrow documents nested four
// containers deep: in lax mode each step unwraps an array exactly one level,
// whatever step produced it, and never errs; strict errs exactly where the
// reference walk meets a mismatch.
func C07_Deep() {
	src := "$" + deepAcc[nd.Choice(len(deepAcc))] + deepAcc[nd.Choice(len(deepAcc))]
	if nd.Choice(2) == 1 {
		src += deepAcc[nd.Choice(len(deepAcc))]
	}
	doc := nd.JSON(nd.Spec{Kinds: nd.KFloat | nd.KArray | nd.KObject, Depth: 4, Width: 1, Keys: []string{"a"}})
	lp := parse(src)
	lgot, lerr := lp.Query(bg, doc)
	nd.Assert(lerr == nil, "C07/deep/lax-must-not-err "+src)
	lwant, lwerr, lopen, lperm := refQueryOpt(lp.AST, doc, nil, true)
	if !lopen && lerr == nil && lwerr == eNone {
		nd.Assert(sameSeq(lgot, lwant, lperm), "C07/deep/lax-items "+src)
	}
	sp := parse("strict " + src)
	sgot, serr := sp.Query(bg, doc)
	swant, swerr, sopen, sperm := refQueryOpt(sp.AST, doc, nil, true)
	if sopen {
		return
	}
	if swerr != eNone {
		nd.Assert(serr != nil && isVerbose(serr), "C07/deep/strict-must-report "+src)
	} else {
		nd.Assert(serr == nil, "C07/deep/strict-spurious-error "+src)
		if serr == nil {
			nd.Assert(sameSeq(sgot, swant, sperm), "C07/deep/strict-items "+src)
		}
	}
}
