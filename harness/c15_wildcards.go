//go:build verif

package harness

import (
	"context"
	"math"

	"github.com/theory/sqljson/path"
	"github.com/theory/sqljson/path/ast"
	"github.com/theory/sqljson/path/exec"
	"harness/nd"
)

var _ = reg("C15_Paths", C15_Paths)
var _ = reg("C15_Bounds", C15_Bounds)
var _ = reg("C15_Equiv", C15_Equiv)

func treeSpec() nd.Spec {
	if nd.Thorough() {
		return nd.Spec{Kinds: nd.KNull | nd.KFloat | nd.KArray | nd.KObject, Depth: 3, Width: 2, Keys: []string{"a", "b"}}
	}
	return nd.Spec{Kinds: nd.KFloat | nd.KArray | nd.KObject, Depth: 2, Width: 2, Keys: []string{"a", "b"}}
}

var c15Paths = []string{
	"$.*",
	"$[*]",
	"$.**",
	"$.**{0}",
	"$.**{1}",
	"$.**{2}",
	"$.**{1 to 2}",
	"$.**{0 to last}",
	"$.**{1 to last}",
	"$.**{last}",
	"$.**.a",
	"$.**{1 to last}.a",
	"$.**.*",
	"$.**[*]",
	"$.*.*",
	"$[*][*]",
	"$.*[*]",
	"$.**{2 to 1}",
	"$.**{last}.a",
	"$.**{last}.*",
	"$.**{last}[*]",
	"$.**{2}.a",
	"$.**{1 to 2}.*",
	"$.**{0}.a",
	"$.**{1}[*].a",
	"$.**{last} ? (@ > 1)",
	"$.** ? (@.a > 1)",
	// .** nested inside a filter below .**: the structural-error switch is
	// restored to what the outer .** set, not to its mode default
	"$.** ? (exists(@.**{1}.a)).a",
	"$.**{1} ? (exists(@.** ? (@ == 1))).*",
	"$.** ? (exists(@.**{0 to 1}.a))[*]",
	"$.**{1}.**{1}.a",
	"$.** ? (@.**{1} > 1).a",
}

// C15_Paths: wildcard and recursive-descent paths on every JSON tree shape
// within the bound (shapes arise lazily; empty arrays and objects included),
// both modes, against an explicit tree walk.
func C15_Paths() {
	mode := modePrefix()
	src := c15Paths[nd.Choice(len(c15Paths))]
	doc := nd.JSON(treeSpec())
	checkAgainstRef("C15/"+mode+src, mode+src, doc, nil, "")
}

// C15_Bounds: .**{a to b} with symbolic level bounds (built with the real
// ast.NewAny from symbolic ints, MaxUint32 and "last" included).
func C15_Bounds() {
	lo, hi := nd.Int(), nd.Int()
	nd.Assume(lo >= -1 && lo <= math.MaxUint32+1)
	nd.Assume(hi >= -1 && hi <= math.MaxUint32+1)
	node := ast.NewAny(lo, hi)
	root := ast.LinkNodes([]ast.Node{ast.NewConst(ast.ConstRoot), node})
	strict := nd.Choice(2) == 1
	tree, err := ast.New(!strict, false, root)
	if err != nil {
		nd.Assert(false, "C15/bounds/ast.New")
		return
	}
	p := path.New(tree)
	doc := nd.JSON(nd.Spec{Kinds: nd.KFloat | nd.KArray | nd.KObject, Depth: 2, Width: 2, Keys: []string{"a"}})
	got, gerr := p.Query(context.Background(), doc)
	want, werr, open, perm := refQuery(tree, doc, nil)
	if open {
		return
	}
	nd.Assert(errClass(gerr) == werr, "C15/bounds/error-class")
	if werr == eNone && gerr == nil {
		nd.Assert(sameSeq(got, want, perm), "C15/bounds/items")
	}
}

// C15_Equiv: .** == .**{0 to last}; .**{k} == k applications of "any child"
// (relations between executions of the real code).
func C15_Equiv() {
	mode := "strict "
	doc := nd.JSON(treeSpec())
	which := nd.Choice(4)
	var l, r string
	switch which {
	case 0:
		l, r = "$.**", "$.**{0 to last}"
	case 1:
		l, r = "$.**{0}", "$"
	case 2:
		l, r = "$.**{1}", "$ ? (@.type() == \"array\")[*]"
	case 3:
		l, r = "$.**{1}.**{1}", "$.**{2}"
	}
	x, ex := parse(mode+l).Query(bg, doc)
	if which == 2 {
		// any child = array elements or object members
		if _, ok := doc.([]any); !ok {
			r = "$.*"
			if _, ok := doc.(map[string]any); !ok {
				r = "$ ? (1 == 2)"
			}
		} else {
			r = "$[*]"
		}
	}
	y, ey := parse(mode+r).Query(bg, doc)
	tag := "C15/equiv/" + l
	nd.Assert((ex == nil) == (ey == nil), tag+"/error")
	if ex == nil && ey == nil {
		nd.Assert(sameSeq(x, y, true), tag)
	}
}

var _ = exec.ErrExecution
