//go:build verif

package harness

import (
	"context"
	"encoding/json"
	"time"

	"github.com/theory/sqljson/path/types"
	"harness/nd"
)

var _ = reg("C18_Years", C18_Years)

// C18_Years: the round trips of C18_RoundTrip for every year 1..9999 (year =
// 1 + 40*b + c, b a symbolic byte, c a choice of 40) for the three types that
// carry a year, on a fixed month, day and time of day with a fraction.
func C18_Years() {
	ctx := context.Background()
	year := 1 + 40*int(nd.Byte()) + nd.Choice(40)
	nd.Assume(year <= 9999)
	ks := []int{0, 3, 4}
	k := ks[nd.Choice(3)]
	var v types.DateTime
	switch k {
	case 0:
		v = types.NewDate(time.Date(year, 3, 4, 0, 0, 0, 0, time.UTC))
	case 3:
		v = types.NewTimestamp(time.Date(year, 3, 4, 1, 2, 3, 500000000, time.UTC))
	case 4:
		v = types.NewTimestampTZ(ctx, time.Date(year, 3, 4, 1, 2, 3, 500000000, time.FixedZone("", 5*3600+1800)))
	}
	tag := "C18/years/" + dtNames[k]
	text := v.String()
	back, ok := types.ParseTime(ctx, text, -1)
	nd.Assert(ok, tag+"/String-does-not-parse")
	if ok {
		nd.Assert(sameDT(back, v), tag+"/ParseTime(String)-differs")
	}
	b, err := json.Marshal(v)
	nd.Assert(err == nil, tag+"/Marshal-error")
	w := newDT(k)
	uerr := w.UnmarshalJSON(b)
	nd.Assert(uerr == nil, tag+"/Unmarshal(Marshal)-error")
	if uerr == nil {
		nd.Assert(sameDT(w.(types.DateTime), v), tag+"/Unmarshal(Marshal)-differs")
	}
	r, qerr := parse("$.datetime().string()").Query(ctx, text)
	nd.Assert(qerr == nil && len(r) == 1, tag+"/path-string-error")
	if qerr == nil && len(r) == 1 {
		s, isStr := r[0].(string)
		nd.Assert(isStr && s == text, tag+"/path-string-differs")
	}
}
