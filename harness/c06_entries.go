//go:build verif

package harness

import (
	"github.com/theory/sqljson/path/exec"
	"harness/nd"
)

var _ = reg("C06_Pool", C06_Pool)
var _ = reg("C06_Later", C06_Later)

var laterPaths = []string{
	"$[*] ? (@ > 1)", "$.* ? (@ > 1)", "$.keyvalue() ? (@.value > 1)", "$.keyvalue().value ? (@ > 1)", "$[*].keyvalue() ? (@.value > 1)",
	"$.** ? (@ > 1)", "$[0, 1] ? (@ > 1)", "$[0 to 1].a", "$[*].a", "$.*.a", "$.**.a", "$[*] ? (exists(@.a))", "$.keyvalue().key ? (@ == \"b\")",
	"$[*].a ? (@ > 1)", "$.a[*] ? (@ > 1)", "$[*] ? (@.a > 1).a", "-$[*] ? (@ < -1)", "$[*].double() ? (@ > 1)", "$[*][*] ? (@ > 1)",
	// a signed sequence followed by a step that rejects the first item
	"(-$[*]) ? (@ < -1)", "(+$[*]) ? (@ > 1)", "(-$[*]).abs() ? (@ > 1)", "(-$.*) ? (@ < -1)",
	// a step after .** that fails for some items and not for later ones
	"$.**{2}.boolean()", "$.**.integer()", "$.**{1 to 2}.keyvalue()",
}

// C06_Later: the answer is decided only by the second (or a later) item of
// an iteration: documents with two elements / members, Exists and First
// against Query.
func C06_Later() {
	src := modePrefix() + laterPaths[nd.Choice(len(laterPaths))]
	doc := nd.JSON(nd.Spec{Kinds: nd.KFloat | nd.KArray | nd.KObject, Depth: 2, Width: 2, Keys: []string{"a", "b"}})
	silent := nd.Choice(2) == 1
	opts := []exec.Option{}
	if silent {
		opts = append(opts, exec.WithSilent())
	}
	p := parse(src)
	q, qerr := p.Query(bg, doc)
	ex, eerr := p.Exists(bg, doc, opts...)
	tag := "C06/later " + src
	if qerr == nil {
		nd.Assert(eerr == nil, tag+"/Exists-errs-though-Query-succeeds")
		if eerr == nil {
			nd.Assert(ex == (len(q) > 0), tag+"/Exists-disagrees-with-Query")
		}
		f, ferr := p.First(bg, doc, opts...)
		nd.Assert(ferr == nil, tag+"/First-errs-though-Query-succeeds")
		if ferr == nil && len(q) == 0 {
			nd.Assert(f == nil, tag+"/First-not-nil-on-empty")
		}
	} else if p.IsStrict() && isVerbose(qerr) {
		nd.Assert(eerr != nil, tag+"/Exists-hides-strict-error")
	}
}

// C06_Pool: the five entry points on identical inputs tell one story.
func C06_Pool() {
	src, doc, vars := poolCase()
	silent := nd.Choice(2) == 1
	opts := []exec.Option{exec.WithVars(vars)}
	if silent {
		opts = append(opts, exec.WithSilent())
	}
	p := parse(src)
	strict := p.IsStrict()
	tag := "C06"
	fam := family(src)
	q, qerr := p.Query(bg, doc, opts...)
	qc := errClass(qerr)
	// whether a complete evaluation succeeds is judged without WithSilent
	vq, vqerr := q, qerr
	if silent {
		vq, vqerr = p.Query(bg, doc, exec.WithVars(vars))
	}
	nd.Cover(tag + "/" + src)

	// First = head of Query, same error
	f, ferr := p.First(bg, doc, opts...)
	nd.Assert(errClass(ferr) == qc, tag+"/First/error-differs-from-Query")
	if qerr == nil && ferr == nil {
		if len(q) == 0 {
			nd.Assert(f == nil, tag+"/First/not-nil-on-empty")
		} else if !refPermutable(p.String()) {
			nd.Assert(sameItem(f, q[0]), tag+"/First/not-head-of-Query")
		}
	}

	// Exists
	ex, eerr := p.Exists(bg, doc, opts...)
	switch errClass(vqerr) {
	case eNone:
		nd.Assert(eerr == nil, tag+"/Exists/errs-though-Query-succeeds"+fam)
		if eerr == nil {
			nd.Assert(ex == (len(vq) > 0), tag+"/Exists/disagrees-with-Query"+fam)
		}
	case eHard:
		nd.Assert(eerr != nil && hardErr(eerr), tag+"/Exists/hides-hard-error"+fam)
	case eSupp:
		if strict {
			// strict: Exists must not hide the error Query reports (NULL when silent)
			if silent {
				nd.Assert(eerr == exec.NULL, tag+"/Exists/strict-hides-error"+fam)
			} else {
				nd.Assert(eerr != nil && (isVerbose(eerr) || eerr == exec.NULL), tag+"/Exists/strict-hides-error"+fam)
			}
		} else {
			// lax: Exists may answer early, but never true when the complete
			// evaluation (the items before the failure) yields nothing
			sq, serr := q, qerr
			if !silent {
				sq, serr = p.Query(bg, doc, exec.WithVars(vars), exec.WithSilent())
			}
			if serr == nil && len(sq) == 0 {
				nd.Assert(!(eerr == nil && ex), tag+"/Exists/true-though-evaluation-yields-nothing"+fam)
			}
		}
	}

	// Match
	m, merr := p.Match(bg, doc, opts...)
	if qerr != nil {
		nd.Assert(errClass(merr) == qc, tag+"/Match/error-differs-from-Query")
	} else {
		single := false
		if len(q) == 1 {
			switch v := q[0].(type) {
			case nil:
				single = true
				nd.Assert(merr == exec.NULL && !m, tag+"/Match/sole-null-must-be-NULL")
			case bool:
				single = true
				nd.Assert(merr == nil && m == v, tag+"/Match/sole-boolean")
			}
		}
		if !single {
			if silent {
				nd.Assert(merr == exec.NULL && !m, tag+"/Match/non-boolean-silent-must-be-NULL")
			} else {
				nd.Assert(merr != nil && isVerbose(merr) && !m, tag+"/Match/non-boolean-must-err")
			}
		}
	}

	// ExistsOrMatch dispatches on IsPredicate
	em, emerr := p.ExistsOrMatch(bg, doc, opts...)
	if p.IsPredicate() {
		nd.Assert(em == m && sameErr(emerr, merr), tag+"/ExistsOrMatch/not-Match-for-predicate")
	} else {
		nd.Assert(em == ex && sameErr(emerr, eerr), tag+"/ExistsOrMatch/not-Exists-for-path")
	}
}

// family names the construct at the head of the path, so that a listed known
// finding masks only its own family.
func family(src string) string {
	if len(src) > 7 && src[:7] == "strict " {
		src = src[7:]
	}
	if len(src) > 0 && (src[0] == '-' || src[0] == '+') {
		return " [unary-arithmetic]"
	}
	return ""
}

func sameErr(a, b error) bool {
	if a == nil || b == nil {
		return a == nil && b == nil
	}
	if a == exec.NULL || b == exec.NULL {
		return a == b
	}
	return errClass(a) == errClass(b)
}

// refPermutable: the path iterates object members, whose order is open.
func refPermutable(src string) bool {
	for i := 0; i+1 < len(src); i++ {
		if src[i] == '.' && src[i+1] == '*' {
			return true
		}
	}
	return len(src) >= 10 && contains(src, "keyvalue")
}

func contains(s, sub string) bool {
	for i := 0; i+len(sub) <= len(s); i++ {
		if s[i:i+len(sub)] == sub {
			return true
		}
	}
	return false
}

var _ = reg("C06_Datetime", C06_Datetime)

// C06_Datetime: the five entry points on the datetime methods: every cast
// method on strings of all five datetime types (and on text that is none),
// with and without WithTZ, silent and verbose, lax and strict, in a context
// zone: Exists/First/ExistsOrMatch tell what Query tells.
func C06_Datetime() {
	mode := modePrefix()
	m := castMethods[nd.Choice(len(castMethods))]
	src := mode + "$." + m + "()"
	switch nd.Choice(3) {
	case 1:
		src += ".type()"
	case 2:
		src = mode + "$[*]." + m + "()"
	}
	var val any
	if k := nd.Choice(6); k < 5 {
		val = dtString(k, digit())
	} else {
		val = "x"
	}
	var doc any = val
	if contains(src, "[*]") {
		doc = []any{val, dtString(tDate, "1")}
	}
	ctx := tzContext()
	var opts []exec.Option
	if nd.Choice(2) == 1 {
		opts = append(opts, exec.WithTZ())
	}
	silent := nd.Choice(2) == 1
	vopts := opts
	if silent {
		opts = append(append([]exec.Option{}, opts...), exec.WithSilent())
	}
	p := parse(src)
	tag := "C06/datetime"
	vq, vqerr := p.Query(ctx, doc, vopts...)
	q, qerr := p.Query(ctx, doc, opts...)
	f, ferr := p.First(ctx, doc, opts...)
	nd.Assert(errClass(ferr) == errClass(qerr), tag+"/First/error-differs-from-Query")
	if qerr == nil && ferr == nil {
		nd.Assert((f == nil) == (len(q) == 0), tag+"/First/emptiness-differs-from-Query")
	}
	ex, eerr := p.Exists(ctx, doc, opts...)
	switch {
	case vqerr == nil:
		nd.Assert(eerr == nil && ex == (len(vq) > 0), tag+"/Exists/disagrees-with-successful-Query")
	case hardErr(vqerr):
		// a complete evaluation fails hard; Exists may have answered before reaching it only if an item precedes
		if eerr == nil && ex {
			pq, _ := p.Query(ctx, doc, append(append([]exec.Option{}, vopts...), exec.WithSilent())...)
			nd.Assert(len(pq) > 0 || !p.IsStrict(), tag+"/Exists/true-though-evaluation-yields-nothing")
		}
	default:
		// a complete evaluation yields an error: Exists must not report true
		// unless an item was found before it (lax early exit)
		if eerr == nil && ex {
			pq, perr := p.Query(ctx, doc, append(append([]exec.Option{}, vopts...), exec.WithSilent())...)
			nd.Assert(perr == nil && len(pq) > 0 && !p.IsStrict(), tag+"/Exists/true-though-evaluation-yields-nothing")
		}
		if p.IsStrict() {
			nd.Assert(eerr != nil, tag+"/Exists/strict-hides-error")
		}
	}
	eo, eoerr := p.ExistsOrMatch(ctx, doc, opts...)
	nd.Assert(eo == ex && (eoerr == nil) == (eerr == nil), tag+"/ExistsOrMatch/differs-from-Exists")
}
