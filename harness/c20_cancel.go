//go:build verif

package harness

import (
	"context"
	"errors"

	"github.com/theory/sqljson/path/exec"
	"harness/nd"
)

var _ = reg("C20_Pool", C20_Pool)
var _ = reg("C20_Sites", C20_Sites)

// pollCtx is a context that becomes done at the (cancelAt+1)-th poll of
// Done(); cancelAt is symbolic, so the solver splits it at every poll site.
type pollCtx struct {
	context.Context
	polls    int
	cancelAt int
	firstHit int // poll number at which cancellation was first observed
	err      error
	closed   chan struct{}
}

func newPollCtx(cancelAt int, err error) *pollCtx {
	c := &pollCtx{Context: context.Background(), cancelAt: cancelAt, err: err, closed: make(chan struct{})}
	close(c.closed)
	return c
}

func (c *pollCtx) Done() <-chan struct{} {
	c.polls++
	if c.polls > c.cancelAt {
		if c.firstHit == 0 {
			c.firstHit = c.polls
		}
		return c.closed
	}
	return nil
}

func (c *pollCtx) Err() error {
	if c.polls > c.cancelAt {
		return c.err
	}
	return nil
}

func cancelCheck(tag, src string, doc any, vars exec.Vars, full bool) {
	silent := nd.Choice(2) == 1
	opts := []exec.Option{exec.WithVars(vars)}
	if silent {
		opts = append(opts, exec.WithSilent())
	}
	cause := context.Canceled
	if full && nd.Choice(2) == 1 {
		cause = context.DeadlineExceeded
	}
	cancelAt := nd.IntRange(0, 64)
	ctx := newPollCtx(cancelAt, cause)
	p := parse(src)
	var entry int
	if !full && !nd.Thorough() {
		// quick tier: the collecting and the existence code paths
		entry = nd.Choice(2) * 2
	} else {
		entry = nd.Choice(4)
	}
	var err error
	empty := true
	switch entry {
	case 0:
		var r []any
		r, err = p.Query(ctx, doc, opts...)
		empty = r == nil
	case 1:
		var r any
		r, err = p.First(ctx, doc, opts...)
		empty = r == nil
	case 2:
		var b bool
		b, err = p.Exists(ctx, doc, opts...)
		empty = !b
	case 3:
		var b bool
		b, err = p.Match(ctx, doc, opts...)
		empty = !b
	}
	if ctx.firstHit == 0 {
		// never observed as done: nothing to check here (C05/C06 cover it)
		nd.Cover(tag + "/not-cancelled")
		return
	}
	nd.Cover(tag + "/cancelled")
	nd.Assert(err != nil, tag+"/cancellation-turned-into-a-result")
	if err == nil {
		return
	}
	nd.Assert(err != exec.NULL, tag+"/cancellation-turned-into-NULL")
	nd.Assert(isExec(err) && errors.Is(err, cause), tag+"/error-does-not-wrap-ErrExecution-and-cause")
	nd.Assert(!isVerbose(err), tag+"/cancellation-is-suppressible")
	nd.Assert(empty, tag+"/items-returned-with-cancellation")
	// bounded number of further steps: the error travels straight up
	nd.Assert(ctx.polls-ctx.firstHit <= 2, tag+"/keeps-evaluating-after-cancellation")
}

// C20_Pool: every pool path, cancelled at every poll k.
func C20_Pool() {
	src, doc, vars := poolCase()
	cancelCheck("C20", src, doc, vars, true)
}

var cancelSites = []string{
	"($.a == 1) is unknown",
	"$ ? ((@.a == 1) is unknown)",
	"exists($.a ? (@ > 1))",
	"$ ? (exists(@.a))",
	"$[*] ? (@.a == 1 && @.b == 2)",
	"$[*] ? (@.a == 1 || @.b == 2)",
	"!($.a == 1)",
	"$.a starts with \"x\"",
	"$ ? (@.a like_regex \"^x\")",
	"$[0, 1].a",
	"$[$.a to last]",
	"$.**.a",
	"$.keyvalue().value",
	"-$.a",
	"$.a + $.b",
	"$.a.double()",
	"$ ? (@.a > 1).b ? (@ > 2)",
	"$ ? ((exists($ ? (@.a == 1))) is unknown)",
	// a second operand / bound evaluated after the first one failed suppressibly
	"$.a[$.x to $.b]", "$.a[$.x, $.b]", "$.x + $.b", "$.x == $.b", "$ ? (exists(@.a[$.x to $.b]))", "$.a ? (@[$.x to $.b] > 0)",
	"$.x starts with \"a\"", "-$.x + $.b",
}

// C20_Sites: the constructs that consume (status, error) pairs.
func C20_Sites() {
	src := modePrefix() + cancelSites[nd.Choice(len(cancelSites))]
	doc := nd.JSON(nd.Spec{Kinds: nd.KFloat | nd.KArray | nd.KObject, Depth: 2, Width: 2, Keys: []string{"a", "b"}})
	cancelCheck("C20/site "+src, src, doc, nil, false)
}
