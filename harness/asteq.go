//go:build verif

package harness

import (
	"github.com/theory/sqljson/path/ast"
)

// eqNode compares two parsed trees through the exported accessors.
func eqNode(a, b ast.Node) bool {
	if a == nil || b == nil {
		return isNilNode(a) && isNilNode(b)
	}
	if isNilNode(a) || isNilNode(b) {
		return isNilNode(a) && isNilNode(b)
	}
	ok := false
	switch x := a.(type) {
	case *ast.ConstNode:
		y, t := b.(*ast.ConstNode)
		ok = t && x.Const() == y.Const()
	case *ast.MethodNode:
		y, t := b.(*ast.MethodNode)
		ok = t && x.Name() == y.Name()
	case *ast.StringNode:
		y, t := b.(*ast.StringNode)
		ok = t && x.Text() == y.Text()
	case *ast.VariableNode:
		y, t := b.(*ast.VariableNode)
		ok = t && x.Text() == y.Text()
	case *ast.KeyNode:
		y, t := b.(*ast.KeyNode)
		ok = t && x.Text() == y.Text()
	case *ast.NumericNode:
		y, t := b.(*ast.NumericNode)
		ok = t && x.Float() == y.Float()
	case *ast.IntegerNode:
		y, t := b.(*ast.IntegerNode)
		ok = t && x.Int() == y.Int()
	case *ast.AnyNode:
		y, t := b.(*ast.AnyNode)
		ok = t && x.First() == y.First() && x.Last() == y.Last()
	case *ast.BinaryNode:
		y, t := b.(*ast.BinaryNode)
		ok = t && x.Operator() == y.Operator() && eqNode(x.Left(), y.Left()) && eqNode(x.Right(), y.Right())
	case *ast.UnaryNode:
		y, t := b.(*ast.UnaryNode)
		ok = t && x.Operator() == y.Operator() && eqNode(x.Operand(), y.Operand())
	case *ast.RegexNode:
		y, t := b.(*ast.RegexNode)
		ok = t && eqNode(x.Operand(), y.Operand()) && x.Regexp().String() == y.Regexp().String()
	case *ast.ArrayIndexNode:
		y, t := b.(*ast.ArrayIndexNode)
		ok = t && len(x.Subscripts()) == len(y.Subscripts())
		if ok {
			for i := range x.Subscripts() {
				if !eqNode(x.Subscripts()[i], y.Subscripts()[i]) {
					ok = false
				}
			}
		}
	}
	if !ok {
		return false
	}
	return eqNode(a.Next(), b.Next())
}

// isNilNode: a nil interface or a typed nil pointer (ast returns typed nils
// for absent operands).
func isNilNode(n ast.Node) bool {
	switch x := n.(type) {
	case nil:
		return true
	case *ast.ConstNode:
		return x == nil
	case *ast.MethodNode:
		return x == nil
	case *ast.StringNode:
		return x == nil
	case *ast.VariableNode:
		return x == nil
	case *ast.KeyNode:
		return x == nil
	case *ast.NumericNode:
		return x == nil
	case *ast.IntegerNode:
		return x == nil
	case *ast.AnyNode:
		return x == nil
	case *ast.BinaryNode:
		return x == nil
	case *ast.UnaryNode:
		return x == nil
	case *ast.RegexNode:
		return x == nil
	case *ast.ArrayIndexNode:
		return x == nil
	}
	return false
}
