//go:build verif

package harness

import (
	"github.com/theory/sqljson/path/exec"
	"harness/nd"
)

var _ = reg("C10_Filter", C10_Filter)
var _ = reg("C10_Conjunction", C10_Conjunction)

// conditions as they appear in a filter (over @) and as a predicate check
// expression over $.
var filterConds = [][2]string{
	{"@ > 1", "$ > 1"},
	{"@.a == 1", "$.a == 1"},
	{"@.a == @.b", "$.a == $.b"},
	{"exists(@.a)", "exists($.a)"},
	{"@ starts with \"a\"", "$ starts with \"a\""},
	{"@ like_regex \"^a\"", "$ like_regex \"^a\""},
	{"@.a > 1 && @.b > 1", "$.a > 1 && $.b > 1"},
	{"@.a > 1 || @.b > 1", "$.a > 1 || $.b > 1"},
	{"!(@.a == 1)", "!($.a == 1)"},
	{"(@.a == 1) is unknown", "($.a == 1) is unknown"},
	{"@.a + 1 == 2", "$.a + 1 == 2"},
	{"@[*] > 1", "$[*] > 1"},
	{"@.type() == \"number\"", "$.type() == \"number\""},
	{"exists(@ ? (@.a == 1))", "exists($ ? (@.a == 1))"},
	{"@.a ? (@ > 1) == 2", "$.a ? (@ > 1) == 2"},
	{"@.a.double() > 1", "$.a.double() > 1"},
	// a nested filter that ends in a non-suppressible error which is unknown
	// absorbs (the listed finding of C11), then @ again
	{"(exists(@.a ? (@ == $missing))) is unknown && @.b == 1", "(exists($.a ? (@ == $missing))) is unknown && $.b == 1"},
	{"(@.a ? (@ > $missing) > 0) is unknown || @.b > 1", "($.a ? (@ > $missing) > 0) is unknown || $.b > 1"},
}

var filterPrefixes = []string{"$", "$[*]", "$.a", "$.*", "$.**{1}"}

func filterDocSpec() nd.Spec {
	if !nd.Thorough() {
		return nd.Spec{Kinds: nd.KFloat | nd.KString | nd.KArray | nd.KObject, Depth: 2, Width: 2, StrLen: 1, Keys: []string{"a", "b"}, ASCII: true}
	}
	return nd.Spec{Kinds: nd.KNull | nd.KFloat | nd.KString | nd.KArray | nd.KObject, Depth: 2, Width: 2, StrLen: 1, Keys: []string{"a", "b"}, ASCII: true}
}

// C10_Filter: P ? (C) is the order-preserving subsequence of P's items
// (after one level of unwrapping in lax mode) for which C, as a predicate
// check over the item, yields true; nothing altered, nothing duplicated.
func C10_Filter() {
	strict := nd.Choice(2) == 1
	mode := ""
	if strict {
		mode = "strict "
	}
	np := 3
	if nd.Thorough() {
		np = len(filterPrefixes)
	}
	P := filterPrefixes[nd.Choice(np)]
	if strict && P == "$.**{1}" {
		// below .** in strict mode structural errors inside the condition are
		// skipped, which the rewritten predicate check does not reproduce
		return
	}
	c := filterConds[nd.Choice(len(filterConds))]
	doc := nd.JSON(filterDocSpec())
	tag := "C10 " + mode + P + " ? (" + c[0] + ")"
	got, gerr := parse(mode+P+" ? ("+c[0]+")").Query(bg, doc)
	pre, perr := parse(mode+P).Query(bg, doc)
	if perr != nil {
		nd.Assert(errClass(gerr) == errClass(perr), tag+"/prefix-error")
		return
	}
	var items []any
	for _, x := range pre {
		if a, ok := x.([]any); ok && !strict {
			items = append(items, a...)
		} else {
			items = append(items, x)
		}
	}
	var want []any
	for _, x := range items {
		r, err := parse(mode+c[1]).Query(bg, x)
		if err != nil {
			// only a non-suppressible error may abort the query
			nd.Assert(hardErr(err), tag+"/predicate-check-suppressible-error")
			nd.Assert(gerr != nil && hardErr(gerr), tag+"/hard-error-dropped")
			return
		}
		if len(r) == 1 {
			if b, ok := r[0].(bool); ok && b {
				want = append(want, x)
			}
		}
	}
	nd.Assert(gerr == nil, tag+"/filter-aborts-the-query")
	if gerr != nil {
		return
	}
	nd.Assert(len(got) == len(want), tag+"/kept-items")
	if len(got) != len(want) {
		return
	}
	for i := range got {
		// not altered: the very same object / scalar
		switch g := got[i].(type) {
		case []any, map[string]any:
			nd.Assert(nd.SameObject(g, want[i]), tag+"/item-altered-or-reordered")
		default:
			nd.Assert(sameItem(g, want[i]), tag+"/item-altered-or-reordered")
		}
	}
}

// C10_Conjunction: in strict mode consecutive filters equal one filter on
// their conjunction (conditions free of non-suppressible errors).
func C10_Conjunction() {
	np, nc := 2, 6
	if nd.Thorough() {
		// (the last condition can raise a non-suppressible error and is excluded)
		np, nc = len(filterPrefixes), len(filterConds)-3
	}
	P := filterPrefixes[nd.Choice(np)]
	c1 := filterConds[nd.Choice(nc)][0]
	c2 := filterConds[nd.Choice(nc)][0]
	doc := nd.JSON(filterDocSpec())
	tag := "C10/conj strict " + P + " ? (" + c1 + ") ? (" + c2 + ")"
	a, aerr := parse("strict "+P+" ? ("+c1+") ? ("+c2+")").Query(bg, doc)
	b, berr := parse("strict "+P+" ? (("+c1+") && ("+c2+"))").Query(bg, doc)
	nd.Assert(errClass(aerr) == errClass(berr), tag+"/error")
	if aerr == nil && berr == nil {
		nd.Assert(sameSeq(a, b, false), tag+"/items")
	}
}

var _ = reg("C10_Generated", C10_Generated)

// prefixes whose items are generated values (methods, arithmetic, subscript
// lists), with conditions that apply to those items
var genFilterCases = [][3]string{
	{"$.keyvalue()", "@.value > 1", "$.value > 1"},
	{"$.keyvalue()", "@.key == \"b\"", "$.key == \"b\""},
	{"$[*].keyvalue()", "@.value > 1", "$.value > 1"},
	{"$.keyvalue().value", "@ > 1", "$ > 1"},
	{"$.*.keyvalue()", "exists(@.value.a)", "exists($.value.a)"},
	{"$[0, 1]", "@ > 1", "$ > 1"},
	{"$[0 to last]", "@.a > 1", "$.a > 1"},
	{"(-$[*])", "@ < -1", "$ < -1"},
	{"$[*].abs()", "@ > 1", "$ > 1"},
	{"$.*.double()", "@ > 1", "$ > 1"},
	{"$[*].size()", "@ > 1", "$ > 1"},
	{"$.**", "@ > 1", "$ > 1"},
	{"$.*[*]", "@ > 1", "$ > 1"},
}

// C10_Generated: the filter rule after steps that generate their items
// (keyvalue triples, method results, arithmetic, subscript lists, .**), on
// documents with two entries so that a later item can pass after an earlier
// one was dropped: same items (deep equality, keyvalue ids included), same
// order, and a failing prefix fails the same way with or without the filter.
func C10_Generated() {
	mode := modePrefix()
	c := genFilterCases[nd.Choice(len(genFilterCases))]
	es := nd.Spec{Kinds: nd.KFloat | nd.KArray | nd.KObject, Depth: 1, Width: 1, Keys: []string{"a", "b"}}
	if nd.Thorough() {
		es.Width = 2
	}
	var doc any
	if nd.Choice(2) == 0 {
		doc = []any{nd.JSON(es), nd.JSON(es)}
	} else {
		doc = map[string]any{"a": nd.JSON(es), "b": nd.JSON(es)}
	}
	tag := "C10/generated " + mode + c[0] + " ? (" + c[1] + ")"
	p := parse(mode + c[0] + " ? (" + c[1] + ")")
	got, gerr := p.Query(bg, doc)
	pre, perr := parse(mode+c[0]).Query(bg, doc)
	if perr != nil {
		nd.Assert(errClass(gerr) == errClass(perr), tag+"/prefix-error")
		if isVerbose(perr) {
			// the items kept before the failure are the filtered items before it
			pre, perr = parse(mode+c[0]).Query(bg, doc, exec.WithSilent())
			got, gerr = p.Query(bg, doc, exec.WithSilent())
			if perr != nil || gerr != nil {
				return
			}
		} else {
			return
		}
	} else {
		nd.Assert(gerr == nil, tag+"/filter-aborts-the-query")
		if gerr != nil {
			return
		}
	}
	var items []any
	for _, x := range pre {
		if a, ok := x.([]any); ok && mode == "" {
			items = append(items, a...)
		} else {
			items = append(items, x)
		}
	}
	var want []any
	for _, x := range items {
		r, err := parse(mode+c[2]).Query(bg, x)
		if err != nil {
			nd.Assert(false, tag+"/predicate-check-error")
			return
		}
		if len(r) == 1 {
			if b, ok := r[0].(bool); ok && b {
				want = append(want, x)
			}
		}
	}
	nd.Assert(sameSeq(got, want, refPermutable(c[0])), tag+"/kept-items")
}
