//go:build verif

package harness

import (
	"context"
	"encoding/json"
	"time"

	"github.com/theory/sqljson/path/types"
	"harness/nd"
)

var _ = reg("C18_Hostile", C18_Hostile)
var _ = reg("C18_Quotes", C18_Quotes)
var _ = reg("C18_RoundTrip", C18_RoundTrip)
var _ = reg("C18_Commute", C18_Commute)

type jsonUnmarshaler interface {
	UnmarshalJSON([]byte) error
}

func newDT(k int) jsonUnmarshaler {
	switch k {
	case 0:
		return new(types.Date)
	case 1:
		return new(types.Time)
	case 2:
		return new(types.TimeTZ)
	case 3:
		return new(types.Timestamp)
	}
	return new(types.TimestampTZ)
}

var dtNames = []string{"Date", "Time", "TimeTZ", "Timestamp", "TimestampTZ"}

func unmarshalNoPanic(tag string, k int, data []byte) (err error, panicked bool) {
	panicked = true
	func() {
		defer func() { recover() }()
		err = newDT(k).UnmarshalJSON(data)
		panicked = false
	}()
	nd.Assert(!panicked, tag+"/UnmarshalJSON-panics")
	return err, panicked
}

// C18_Hostile: UnmarshalJSON of all five types on arbitrary input of every
// length 0..12 (symbolic bytes), and on the JSON token kinds: an error,
// never a panic.
func C18_Hostile() {
	k := nd.Choice(5)
	tag := "C18/hostile/" + dtNames[k]
	if nd.Choice(3) == 0 {
		tokens := []string{"", "1", "12", "null", "true", "[]", "{}", "\"\"", "\"x\"", "\"12:00\"", "\"1:2\"", "\"", "0.5", "\"2024\"", "-1", "\"+\"", "\"-00:00:00\""}
		t := tokens[nd.Choice(len(tokens))]
		err, p := unmarshalNoPanic(tag, k, []byte(t))
		if !p {
			nd.Assert(err != nil, tag+"/accepts "+t)
		}
		return
	}
	max := 10
	if nd.Thorough() {
		max = 12
	}
	n := nd.Choice(max + 1)
	data := []byte(nd.StringN(n))
	unmarshalNoPanic(tag, k, data)
}

var dtBodies = [][]string{
	{"2024-02-29", "0001-01-01", "9999-12-31"},
	{"12:34:56", "00:00:00.123456789", "23:59:59.5"},
	{"12:34:56+01:00", "12:34:56Z", "00:00:00.5-11:30", "12:34:56+01", "12:34:56+01:02:03"},
	{"2024-02-29T12:34:56", "0001-01-01T00:00:00.123"},
	{"2024-02-29T12:34:56+01:00", "2024-02-29T12:34:56Z", "2024-02-29T12:34:56.5-11:30:15", "2024-02-29T12:34:56+01"},
}

// C18_Quotes: a well-formed body between two symbolic delimiter bytes is
// accepted exactly when both are double quotes (a JSON string).
func C18_Quotes() {
	k := nd.Choice(5)
	body := dtBodies[k][nd.Choice(len(dtBodies[k]))]
	q := nd.StringN(2)
	data := []byte(string(q[0]) + body + string(q[1]))
	tag := "C18/quotes/" + dtNames[k]
	err, p := unmarshalNoPanic(tag, k, data)
	if p {
		return
	}
	quoted := q[0] == '"' && q[1] == '"'
	if quoted {
		nd.Assert(err == nil, tag+"/valid-json-string-rejected "+body)
	} else {
		nd.Assert(err != nil, tag+"/non-string-accepted")
	}
}

// sampleTime: a date from a boundary list (leap day, DST edges of New York,
// year limits), the time of day from one symbolic byte (a small domain the
// engine decides by evaluation), nanoseconds from a list.
func sampleTime(loc *time.Location) time.Time {
	dates := [][3]int{{2024, 2, 29}, {2024, 3, 10}, {2024, 11, 3}, {2015, 8, 2}, {1, 1, 1}, {9999, 12, 31}, {1999, 12, 31}, {2024, 1, 1}}
	nd8 := 4
	if nd.Thorough() {
		nd8 = len(dates)
	}
	d := dates[nd.Choice(nd8)]
	b := int(nd.Byte())
	nd.Assume(b < 96)
	hour := b % 24
	min := []int{0, 59}[(b/24)%2]
	sec := []int{0, 59}[(b/48)%2]
	nss := []int{0, 123456789, 999999999, 500000000, 1, 120000000}
	nn := 2
	if nd.Thorough() {
		nn = len(nss)
	}
	ns := nss[nd.Choice(nn)]
	return time.Date(d[0], time.Month(d[1]), d[2], hour, min, sec, ns, loc)
}

// sampleOffset: whole-minute offsets -12:00 .. +14:00; quick tier in
// half-hour steps, thorough in quarter hours (5:45 included).
func sampleOffset() int {
	q := int(nd.Byte())
	if nd.Thorough() {
		nd.Assume(q <= 104)
		return (q - 48) * 900
	}
	nd.Assume(q <= 52)
	return (q - 24) * 1800
}

// C18_RoundTrip: String() re-parses (ParseTime) to an equal value of the
// same type, and json.Unmarshal(json.Marshal(v)) returns an equal value.
func C18_RoundTrip() {
	ctx := context.Background()
	k := nd.Choice(5)
	var v types.DateTime
	switch k {
	case 0:
		v = types.NewDate(sampleTime(time.UTC))
	case 1:
		v = types.NewTime(sampleTime(time.UTC))
	case 2:
		v = types.NewTimeTZ(sampleTime(time.FixedZone("", sampleOffset())))
	case 3:
		v = types.NewTimestamp(sampleTime(time.UTC))
	case 4:
		v = types.NewTimestampTZ(ctx, sampleTime(time.FixedZone("", sampleOffset())))
	}
	tag := "C18/roundtrip/" + dtNames[k]
	text := v.String()
	back, ok := types.ParseTime(ctx, text, -1)
	nd.Assert(ok, tag+"/String-does-not-parse")
	if ok {
		nd.Assert(sameDT(back, v), tag+"/ParseTime(String)-differs")
	}
	b, err := json.Marshal(v)
	nd.Assert(err == nil, tag+"/Marshal-error")
	w := newDT(k)
	uerr := w.UnmarshalJSON(b)
	nd.Assert(uerr == nil, tag+"/Unmarshal(Marshal)-error")
	if uerr == nil {
		nd.Assert(sameDT(w.(types.DateTime), v), tag+"/Unmarshal(Marshal)-differs")
	}
	// .string() inside a path prints the same text
	r, qerr := parse("$.datetime().string()").Query(ctx, text)
	nd.Assert(qerr == nil && len(r) == 1, tag+"/path-string-error")
	if qerr == nil && len(r) == 1 {
		s, isStr := r[0].(string)
		nd.Assert(isStr && s == text, tag+"/path-string-differs")
	}
}

// sameDT: same type, same instant, same zone offset.
func sameDT(a, b types.DateTime) bool {
	ka, kb := dtKind(a), dtKind(b)
	if ka != kb || ka < 0 {
		return false
	}
	ta, tb := a.GoTime(), b.GoTime()
	_, oa := ta.Zone()
	_, ob := tb.Zone()
	return ta.Equal(tb) && oa == ob
}

func dtKind(v any) int {
	switch v.(type) {
	case *types.Date:
		return 0
	case *types.Time:
		return 1
	case *types.TimeTZ:
		return 2
	case *types.Timestamp:
		return 3
	case *types.TimestampTZ:
		return 4
	}
	return -1
}

func sampleZone() *time.Location {
	switch nd.Choice(4) {
	case 0:
		return time.UTC
	case 1:
		return time.FixedZone("", sampleOffset())
	case 2:
		loc, err := time.LoadLocation("America/New_York")
		if err != nil {
			return time.UTC
		}
		return loc
	}
	loc, err := time.LoadLocation("Asia/Kolkata")
	if err != nil {
		return time.UTC
	}
	return loc
}

// C18_Commute: conversions commute with the context time zone: date ->
// timestamptz -> date and timestamp -> timestamptz -> timestamp are
// identities (for local times that exist in the zone); constructors
// normalise to offset-only locations.
func C18_Commute() {
	zone := sampleZone()
	ctx := types.ContextWithTZ(context.Background(), zone)
	local := sampleTime(time.UTC)
	// skip local times that do not exist (or are ambiguous) in the zone
	probe := time.Date(local.Year(), local.Month(), local.Day(), local.Hour(), local.Minute(), local.Second(), local.Nanosecond(), zone)
	if probe.Hour() != local.Hour() || probe.Day() != local.Day() {
		return
	}
	d := types.NewDate(local)
	dm := time.Date(local.Year(), local.Month(), local.Day(), 0, 0, 0, 0, zone)
	if dm.Hour() == 0 {
		back := d.ToTimestampTZ(ctx).ToDate(ctx)
		nd.Assert(sameDT(back, d), "C18/commute/date->timestamptz->date")
	}
	ts := types.NewTimestamp(local)
	tz := ts.ToTimestampTZ(ctx)
	nd.Assert(sameDT(tz.ToTimestamp(ctx), ts), "C18/commute/timestamp->timestamptz->timestamp")
	name, _ := tz.GoTime().Zone()
	nd.Assert(name == "", "C18/commute/timestamptz-keeps-zone-name")
	ttz := types.NewTimeTZ(probe)
	n2, _ := ttz.GoTime().Zone()
	nd.Assert(n2 == "", "C18/commute/timetz-keeps-zone-name")
}
