//go:build verif

package harness

// Ref is a reference evaluator for SQL/JSON path expressions written from
// the documented rules (README / PostgreSQL documentation), not from the
// exec package: a direct recursive evaluator with an explicit environment
// that is passed by value, so that no binding can leak. It walks the parsed
// path through the exported ast accessors only.
//
// Ref is deliberately partial: where the documented rules leave a result
// open, or where a construct is not modelled, it reports `open` and the
// harness asserts nothing.

import (
	"encoding/json"
	"math"
	"sort"
	"strconv"

	"github.com/theory/sqljson/path/ast"
	"github.com/theory/sqljson/path/exec"
	"harness/nd"
)

const (
	eNone = iota
	eSupp // suppressible (ErrVerbose)
	eHard // non-suppressible ErrExecution
)

type refEnv struct {
	root   any
	vars   exec.Vars
	strict bool
	open   bool // a rule that is left open was met
	perm   bool // an object with >= 2 members was iterated: order is open

	dropNull bool // model the known defect: a subscript skips JSON null elements
	unknownSwallows bool // model the known defect: is unknown swallows the unknown-variable error
}

type rctx struct {
	cur     any
	last    int
	hasLast bool
	ignore  bool // structural errors are skipped (lax, or below .** in strict)
}

func isArr(v any) bool { _, ok := v.([]any); return ok }

// unwrappable: steps before which lax mode unwraps an array one level.
func unwrappable(n ast.Node) bool {
	switch n := n.(type) {
	case *ast.KeyNode:
		return true
	case *ast.ConstNode:
		return n.Const() == ast.ConstAnyKey
	case *ast.UnaryNode:
		switch n.Operator() {
		case ast.UnaryFilter, ast.UnaryDateTime, ast.UnaryDate, ast.UnaryTime, ast.UnaryTimeTZ, ast.UnaryTimestamp, ast.UnaryTimestampTZ:
			return true
		}
	case *ast.MethodNode:
		switch n.Name() {
		case ast.MethodType, ast.MethodSize:
			return false
		}
		return true
	case *ast.BinaryNode:
		return n.Operator() == ast.BinaryDecimal
	}
	return false
}

// chain applies node n (and its successors) to item in.
func (e *refEnv) chain(n ast.Node, in any, c rctx) ([]any, int) {
	if n == nil {
		return []any{in}, eNone
	}
	var targets []any
	if !e.strict && isArr(in) && unwrappable(n) {
		targets = in.([]any)
	} else {
		targets = []any{in}
	}
	var out []any
	for _, t := range targets {
		// a step that fails part-way (a subscript list, a unary operator over
		// a sequence) has already handed the items before the failure on to
		// the rest of the chain: evaluation is depth-first
		items, c2, serr := e.step(n, t, c)
		for _, it := range items {
			r, err := e.chain(n.Next(), it, c2)
			out = append(out, r...)
			if err != eNone {
				return out, err
			}
		}
		if serr != eNone {
			return out, serr
		}
	}
	return out, eNone
}

// structural reports a structural mismatch: skipped or a suppressible error.
func (e *refEnv) structural(c rctx) ([]any, rctx, int) {
	if c.ignore {
		return nil, c, eNone
	}
	return nil, c, eSupp
}

func (e *refEnv) members(m map[string]any) []any {
	if len(m) >= 2 {
		e.perm = true
	}
	keys := make([]string, 0, len(m))
	for k := range m {
		keys = append(keys, k)
	}
	sort.Strings(keys)
	out := make([]any, 0, len(m))
	for _, k := range keys {
		out = append(out, m[k])
	}
	return out
}

func (e *refEnv) children(v any) []any {
	switch v := v.(type) {
	case []any:
		return v
	case map[string]any:
		return e.members(v)
	}
	return nil
}

// descend: nodes at depth lo..hi below v (depth 0 = v), pre-order.
func (e *refEnv) descend(v any, depth, lo, hi uint32, out *[]any) {
	if depth >= lo && depth <= hi {
		*out = append(*out, v)
	}
	if depth < hi {
		for _, ch := range e.children(v) {
			e.descend(ch, depth+1, lo, hi, out)
		}
	}
}

func (e *refEnv) leaves(v any, out *[]any) {
	ch := e.children(v)
	switch v.(type) {
	case []any, map[string]any:
		for _, c := range ch {
			e.leaves(c, out)
		}
	default:
		*out = append(*out, v)
	}
}

// step applies the single node n to item in (no unwrapping, no successor).
func (e *refEnv) step(n ast.Node, in any, c rctx) ([]any, rctx, int) {
	switch n := n.(type) {
	case *ast.ConstNode:
		switch n.Const() {
		case ast.ConstRoot:
			return []any{e.root}, c, eNone
		case ast.ConstCurrent:
			return []any{c.cur}, c, eNone
		case ast.ConstNull:
			return []any{nil}, c, eNone
		case ast.ConstTrue:
			return []any{true}, c, eNone
		case ast.ConstFalse:
			return []any{false}, c, eNone
		case ast.ConstLast:
			if !c.hasLast {
				return nil, c, eHard
			}
			return []any{int64(c.last)}, c, eNone
		case ast.ConstAnyKey:
			if m, ok := in.(map[string]any); ok {
				return e.members(m), c, eNone
			}
			return e.structural(c)
		case ast.ConstAnyArray:
			if a, ok := in.([]any); ok {
				return a, c, eNone
			}
			if !e.strict {
				return []any{in}, c, eNone
			}
			return e.structural(c)
		}
	case *ast.StringNode:
		return []any{n.Text()}, c, eNone
	case *ast.IntegerNode:
		return []any{n.Int()}, c, eNone
	case *ast.NumericNode:
		return []any{n.Float()}, c, eNone
	case *ast.VariableNode:
		v, ok := e.vars[n.Text()]
		if !ok {
			return nil, c, eHard
		}
		return []any{v}, c, eNone
	case *ast.KeyNode:
		if m, ok := in.(map[string]any); ok {
			if v, ok := m[n.Text()]; ok {
				return []any{v}, c, eNone
			}
		}
		return e.structural(c)
	case *ast.AnyNode:
		var out []any
		lo, hi := n.First(), n.Last()
		if lo == math.MaxUint32 && hi == math.MaxUint32 {
			// .**{last}: the scalar leaves below the item (an empty container
			// has none, and a scalar item has nothing below it)
			for _, ch := range e.children(in) {
				e.leaves(ch, &out)
			}
		} else {
			e.descend(in, 0, lo, hi, &out)
		}
		c.ignore = true
		return out, c, eNone
	case *ast.ArrayIndexNode:
		return e.subscripts(n, in, c)
	case *ast.UnaryNode:
		switch n.Operator() {
		case ast.UnaryFilter:
			c2 := c
			c2.cur = in
			o, hard := e.pred(n.Operand(), in, c2)
			if hard {
				return nil, c, eHard
			}
			if o == oT {
				return []any{in}, c, eNone
			}
			return nil, c, eNone
		case ast.UnaryPlus, ast.UnaryMinus:
			return e.unaryMath(n, in, c)
		case ast.UnaryNot, ast.UnaryIsUnknown, ast.UnaryExists:
			return e.predItem(n, in, c)
		}
	case *ast.BinaryNode:
		switch n.Operator() {
		case ast.BinaryAdd, ast.BinarySub, ast.BinaryMul, ast.BinaryDiv, ast.BinaryMod:
			return e.binaryMath(n, in, c)
		case ast.BinaryAnd, ast.BinaryOr, ast.BinaryEqual, ast.BinaryNotEqual, ast.BinaryLess, ast.BinaryGreater,
			ast.BinaryLessOrEqual, ast.BinaryGreaterOrEqual, ast.BinaryStartsWith:
			return e.predItem(n, in, c)
		}
	case *ast.RegexNode:
		return e.predItem(n, in, c)
	case *ast.MethodNode:
		return e.method(n, in, c)
	}
	e.open = true
	return nil, c, eNone
}

func (e *refEnv) predItem(n ast.Node, in any, c rctx) ([]any, rctx, int) {
	o, hard := e.pred(n, in, c)
	if hard {
		return nil, c, eHard
	}
	switch o {
	case oT:
		return []any{true}, c, eNone
	case oF:
		return []any{false}, c, eNone
	}
	return []any{nil}, c, eNone
}

// toIndex: a subscript bound must be a single number within int32 after
// truncation; anything else is an error in both modes.
func (e *refEnv) toIndex(n ast.Node, in any, c rctx) (int64, int) {
	items, err := e.chain(n, in, c)
	if err == eHard {
		return 0, eHard
	}
	if err != eNone {
		return 0, eSupp
	}
	if len(items) != 1 {
		return 0, eSupp
	}
	isNum, isInt, i, f := numView(items[0])
	if !isNum {
		return 0, eSupp
	}
	if isInt {
		if i > math.MaxInt32 || i < math.MinInt32 {
			return 0, eSupp
		}
		return i, eNone
	}
	t := math.Trunc(f)
	if !(t <= math.MaxInt32 && t >= math.MinInt32) {
		return 0, eSupp
	}
	return int64(t), eNone
}

func (e *refEnv) subscripts(n *ast.ArrayIndexNode, in any, c rctx) ([]any, rctx, int) {
	arr, ok := in.([]any)
	if !ok {
		if e.strict {
			if c.ignore {
				// below .** a subscript skips the items that are not arrays
				return nil, c, eNone
			}
			return nil, c, eSupp
		}
		arr = []any{in}
	}
	size := int64(len(arr))
	ci := c
	ci.last, ci.hasLast = int(size-1), true
	var out []any
	for _, s := range n.Subscripts() {
		b, ok := s.(*ast.BinaryNode)
		if !ok || b.Operator() != ast.BinarySubscript {
			e.open = true
			return nil, c, eNone
		}
		from, err := e.toIndex(b.Left(), in, ci)
		if err != eNone {
			return out, c, err
		}
		to := from
		if b.Right() != nil {
			to, err = e.toIndex(b.Right(), in, ci)
			if err != eNone {
				return out, c, err
			}
		}
		if !c.ignore && (from < 0 || from > to || to >= size) {
			return out, c, eSupp
		}
		if from < 0 {
			from = 0
		}
		if to >= size {
			to = size - 1
		}
		for i := from; i <= to; i++ {
			if e.dropNull && arr[i] == nil {
				continue
			}
			out = append(out, arr[i])
		}
	}
	return out, c, eNone
}

// operandSeq evaluates an operand; in lax mode array items of the result
// are unwrapped one level.
func (e *refEnv) operandSeq(n ast.Node, in any, c rctx, unwrap bool) ([]any, int) {
	items, err := e.chain(n, in, c)
	if err != eNone {
		return nil, err
	}
	if e.strict || !unwrap {
		return items, eNone
	}
	var out []any
	for _, it := range items {
		if a, ok := it.([]any); ok {
			out = append(out, a...)
		} else {
			out = append(out, it)
		}
	}
	return out, eNone
}

func (e *refEnv) unaryMath(n *ast.UnaryNode, in any, c rctx) ([]any, rctx, int) {
	seq, err := e.operandSeq(n.Operand(), in, c, true)
	if err != eNone {
		return nil, c, err
	}
	var out []any
	for _, it := range seq {
		isNum, isInt, i, f := numView(it)
		if !isNum {
			return out, c, eSupp
		}
		neg := n.Operator() == ast.UnaryMinus
		switch {
		case isInt && !neg:
			out = append(out, i)
		case isInt && i == math.MinInt64:
			out = append(out, -float64(i))
		case isInt:
			out = append(out, -i)
		case neg:
			out = append(out, -f)
		default:
			out = append(out, f)
		}
	}
	return out, c, eNone
}

func (e *refEnv) binaryMath(n *ast.BinaryNode, in any, c rctx) ([]any, rctx, int) {
	l, err := e.operandSeq(n.Left(), in, c, true)
	if err != eNone {
		return nil, c, err
	}
	if len(l) != 1 {
		return nil, c, eSupp
	}
	r, err := e.operandSeq(n.Right(), in, c, true)
	if err != eNone {
		return nil, c, err
	}
	if len(r) != 1 {
		return nil, c, eSupp
	}
	ln, li, lv, lf := numView(l[0])
	rn, ri, rv, rf := numView(r[0])
	if !ln || !rn {
		return nil, c, eSupp
	}
	opi := map[ast.BinaryOperator]int{ast.BinaryAdd: 0, ast.BinarySub: 1, ast.BinaryMul: 2, ast.BinaryDiv: 3, ast.BinaryMod: 4}[n.Operator()]
	if li && ri {
		if (opi == 3 || opi == 4) && rv == 0 {
			return nil, c, eSupp
		}
		if !intOverflows(opi, lv, rv) || opi == 4 {
			switch opi {
			case 0:
				return []any{lv + rv}, c, eNone
			case 1:
				return []any{lv - rv}, c, eNone
			case 2:
				return []any{lv * rv}, c, eNone
			case 3:
				return []any{lv / rv}, c, eNone
			}
			if rv == -1 {
				return []any{int64(0)}, c, eNone
			}
			return []any{lv % rv}, c, eNone
		}
	}
	if (opi == 3 || opi == 4) && rf == 0 {
		return nil, c, eSupp
	}
	if opi == 4 {
		// value of the float remainder is not modelled
		e.open = true
		return nil, c, eNone
	}
	res := floatOp(opi, lf, rf)
	if !finite(res) {
		return nil, c, eSupp
	}
	return []any{res}, c, eNone
}

// pred evaluates a predicate to true/false/unknown; hard reports a
// non-suppressible error.
func (e *refEnv) pred(n ast.Node, in any, c rctx) (int, bool) {
	switch n := n.(type) {
	case *ast.BinaryNode:
		switch n.Operator() {
		case ast.BinaryAnd:
			l, hard := e.pred(n.Left(), in, c)
			if hard {
				return oU, true
			}
			if l == oF {
				return oF, false
			}
			r, hard := e.pred(n.Right(), in, c)
			if hard {
				return oU, true
			}
			return kAnd(l, r), false
		case ast.BinaryOr:
			l, hard := e.pred(n.Left(), in, c)
			if hard {
				return oU, true
			}
			if l == oT {
				return oT, false
			}
			r, hard := e.pred(n.Right(), in, c)
			if hard {
				return oU, true
			}
			return kOr(l, r), false
		case ast.BinaryStartsWith:
			return e.pairs(n.Left(), n.Right(), in, c, false, func(a, b any) (bool, bool) {
				as, aok := a.(string)
				bs, bok := b.(string)
				if !aok || !bok {
					return true, false
				}
				return false, len(as) >= len(bs) && as[:len(bs)] == bs
			})
		}
		opi := -1
		switch n.Operator() {
		case ast.BinaryEqual:
			opi = 0
		case ast.BinaryNotEqual:
			opi = 1
		case ast.BinaryLess:
			opi = 2
		case ast.BinaryLessOrEqual:
			opi = 3
		case ast.BinaryGreater:
			opi = 4
		case ast.BinaryGreaterOrEqual:
			opi = 5
		}
		if opi < 0 {
			e.open = true
			return oU, false
		}
		return e.pairs(n.Left(), n.Right(), in, c, true, func(a, b any) (bool, bool) { return refItems(opi, a, b) })
	case *ast.UnaryNode:
		switch n.Operator() {
		case ast.UnaryNot:
			o, hard := e.pred(n.Operand(), in, c)
			return kNot(o), hard
		case ast.UnaryIsUnknown:
			o, hard := e.pred(n.Operand(), in, c)
			if hard {
				if e.unknownSwallows {
					return oT, false
				}
				return oU, true
			}
			return b2o(o == oU), false
		case ast.UnaryExists:
			items, err := e.chain(n.Operand(), in, c)
			switch {
			case err == eHard:
				return oU, true
			case err == eSupp:
				if !e.strict && len(items) > 0 {
					e.open = true // early exit may already have answered true
				}
				return oU, false
			case len(items) == 0:
				return oF, false
			}
			return oT, false
		}
	case *ast.RegexNode:
		re := n.Regexp()
		return e.pairs(n.Operand(), nil, in, c, false, func(a, _ any) (bool, bool) {
			s, ok := a.(string)
			if !ok {
				return true, false
			}
			return false, re.MatchString(s)
		})
	}
	e.open = true
	return oU, false
}

// pairs implements the sequence semantics of comparison-like predicates.
// The callback returns (unknown, truth); truth may be symbolic, so outcomes
// are forked explicitly only where the documented result depends on them.
func (e *refEnv) pairs(l, r ast.Node, in any, c rctx, unwrapRight bool, f func(a, b any) (bool, bool)) (int, bool) {
	ls, err := e.operandSeq(l, in, c, true)
	if err == eHard {
		return oU, true
	}
	if err != eNone {
		return oU, false
	}
	rs := []any{nil}
	if r != nil {
		rs, err = e.operandSeq(r, in, c, unwrapRight)
		if err == eHard {
			return oU, true
		}
		if err != eNone {
			return oU, false
		}
	}
	anyU := false
	var truths []bool
	for _, a := range ls {
		for _, b := range rs {
			u, t := f(a, b)
			if u {
				anyU = true
			} else {
				truths = append(truths, t)
			}
		}
	}
	if e.strict && anyU {
		return oU, false
	}
	if nd.Any(truths...) {
		return oT, false
	}
	if anyU {
		return oU, false
	}
	return oF, false
}

func (e *refEnv) method(n *ast.MethodNode, in any, c rctx) ([]any, rctx, int) {
	switch n.Name() {
	case ast.MethodType:
		switch in.(type) {
		case nil:
			return []any{"null"}, c, eNone
		case bool:
			return []any{"boolean"}, c, eNone
		case string:
			return []any{"string"}, c, eNone
		case []any:
			return []any{"array"}, c, eNone
		case map[string]any:
			return []any{"object"}, c, eNone
		case int64, float64, json.Number:
			return []any{"number"}, c, eNone
		}
	case ast.MethodSize:
		if a, ok := in.([]any); ok {
			return []any{int64(len(a))}, c, eNone
		}
		if !e.strict {
			return []any{int64(1)}, c, eNone
		}
		if c.ignore {
			e.open = true // strict below .**: the port answers 1, PostgreSQL skips
			return nil, c, eNone
		}
		return nil, c, eSupp
	case ast.MethodAbs, ast.MethodFloor, ast.MethodCeiling:
		isNum, isInt, i, f := numView(in)
		if !isNum {
			return nil, c, eSupp
		}
		if isInt {
			if n.Name() == ast.MethodAbs && i < 0 {
				if i == math.MinInt64 {
					return []any{-float64(i)}, c, eNone
				}
				return []any{-i}, c, eNone
			}
			return []any{i}, c, eNone
		}
		switch n.Name() {
		case ast.MethodAbs:
			return []any{math.Abs(f)}, c, eNone
		case ast.MethodFloor:
			return []any{math.Floor(f)}, c, eNone
		}
		return []any{math.Ceil(f)}, c, eNone
	case ast.MethodDouble, ast.MethodNumber:
		isNum, _, _, f := numView(in)
		if isNum {
			return []any{f}, c, eNone
		}
		if s, ok := in.(string); ok {
			// which strings are numbers is strconv.ParseFloat's business (as
			// documented); text that is not a finite number is rejected
			// suppressibly
			pf, err := strconv.ParseFloat(s, 64)
			if err != nil || !finite(pf) {
				return nil, c, eSupp
			}
			return []any{pf}, c, eNone
		}
		if _, ok := in.(json.Number); ok {
			// numView declined: a number outside the float64 range
			return nil, c, eSupp
		}
		return nil, c, eSupp
	case ast.MethodInteger, ast.MethodBigInt:
		isNum, isInt, i, f := numView(in)
		if !isNum {
			switch in.(type) {
			case string, json.Number:
				e.open = true
				return nil, c, eNone
			}
			return nil, c, eSupp
		}
		if n.Name() == ast.MethodInteger {
			if isInt {
				if i > math.MaxInt32 || i < math.MinInt32 {
					return nil, c, eSupp
				}
				return []any{i}, c, eNone
			}
			rf := math.Round(f)
			if !(rf <= math.MaxInt32 && rf >= math.MinInt32) {
				return nil, c, eSupp
			}
			return []any{int64(rf)}, c, eNone
		}
		if isInt {
			return []any{i}, c, eNone
		}
		rf := math.Round(f)
		if !(rf >= -9223372036854775808.0 && rf < 9223372036854775808.0) {
			return nil, c, eSupp
		}
		return []any{int64(rf)}, c, eNone
	case ast.MethodBoolean:
		if b, ok := in.(bool); ok {
			return []any{b}, c, eNone
		}
		isNum, isInt, i, f := numView(in)
		if isNum {
			if isInt {
				return []any{i != 0}, c, eNone
			}
			if f != math.Trunc(f) {
				return nil, c, eSupp
			}
			return []any{f != 0}, c, eNone
		}
		switch in.(type) {
		case string, json.Number:
			e.open = true
			return nil, c, eNone
		}
		return nil, c, eSupp
	}
	e.open = true
	return nil, c, eNone
}

// refQuery evaluates a parsed path the way Query is documented to.
func refQuery(p *ast.AST, doc any, vars exec.Vars) (items []any, err int, open, perm bool) {
	return refQueryOpt(p, doc, vars, false)
}

func refQueryOpt(p *ast.AST, doc any, vars exec.Vars, dropNull bool) (items []any, err int, open, perm bool) {
	return refQueryOpt2(p, doc, vars, dropNull, false)
}

func refQueryOpt2(p *ast.AST, doc any, vars exec.Vars, dropNull, unknownSwallows bool) (items []any, err int, open, perm bool) {
	e := &refEnv{root: doc, vars: vars, strict: p.IsStrict(), dropNull: dropNull, unknownSwallows: unknownSwallows}
	items, err = e.chain(p.Root(), doc, rctx{cur: doc, ignore: !e.strict})
	return items, err, e.open, e.perm
}

// ---- result comparison ----

// sameItem: two items are the same value in the same representation.
func sameItem(a, b any) bool {
	switch x := a.(type) {
	case nil:
		return b == nil
	case bool:
		y, ok := b.(bool)
		return ok && x == y
	case string:
		y, ok := b.(string)
		return ok && x == y
	case int64:
		y, ok := b.(int64)
		return ok && x == y
	case float64:
		y, ok := b.(float64)
		return ok && x == y
	case json.Number:
		y, ok := b.(json.Number)
		return ok && x == y
	case []any:
		y, ok := b.([]any)
		if !ok || len(x) != len(y) {
			return false
		}
		if nd.SameObject(x, y) {
			return true
		}
		conds := []bool{}
		for i := range x {
			conds = append(conds, sameItem(x[i], y[i]))
		}
		return nd.All(conds...)
	case map[string]any:
		y, ok := b.(map[string]any)
		if !ok || len(x) != len(y) {
			return false
		}
		if nd.SameObject(x, y) {
			return true
		}
		conds := []bool{}
		for k, xv := range x {
			yv, ok := y[k]
			if !ok {
				return false
			}
			conds = append(conds, sameItem(xv, yv))
		}
		return nd.All(conds...)
	}
	return false
}

// sameSeq compares two item sequences element-wise, or as multisets when
// perm is set (object member order is open).
func sameSeq(a, b []any, perm bool) bool {
	if len(a) != len(b) {
		return false
	}
	if !perm {
		conds := []bool{}
		for i := range a {
			conds = append(conds, sameItem(a[i], b[i]))
		}
		return nd.All(conds...)
	}
	// multiset: greedy matching is exact when equality is an equivalence;
	// the decisions fork, so all matchings are considered
	used := make([]bool, len(b))
	for _, x := range a {
		found := false
		for j, y := range b {
			if !used[j] && sameItem(x, y) {
				used[j] = true
				found = true
				break
			}
		}
		if !found {
			return false
		}
	}
	return true
}

func errClass(err error) int {
	switch {
	case err == nil:
		return eNone
	case isVerbose(err):
		return eSupp
	}
	return eHard
}
