//go:build verif

package harness

import (
	"encoding/json"
	"flag"
	"fmt"
	"os"
	"strings"
	"testing"

	"harness/nd"
)

var vectors = flag.String("vectors", "", "file listing replay vector files, one per line")

type replayOut struct {
	File   string   `json:"file"`
	Labels []string `json:"labels"`
	Panic  string   `json:"panic"`
	Assume bool     `json:"assume_failed"`
}

// TestReplay runs each recorded counterexample against the natively compiled
// real code and prints which assertions failed.
func TestReplay(t *testing.T) {
	if *vectors == "" {
		t.Skip("no vectors")
	}
	b, err := os.ReadFile(*vectors)
	if err != nil {
		t.Fatal(err)
	}
	for _, f := range strings.Fields(string(b)) {
		out := replayOut{File: f, Labels: []string{}}
		var hdr struct {
			Harness string `json:"harness"`
		}
		raw, err := os.ReadFile(f)
		if err != nil {
			t.Fatal(err)
		}
		json.Unmarshal(raw, &hdr)
		h := Harnesses[hdr.Harness]
		if h == nil {
			out.Panic = "unknown harness " + hdr.Harness
		} else if err := nd.Load(f); err != nil {
			out.Panic = "load: " + err.Error()
		} else {
			func() {
				defer func() {
					if r := recover(); r != nil {
						if _, ok := r.(nd.AssumeFailed); ok {
							out.Assume = true
							return
						}
						out.Panic = fmt.Sprint(r)
					}
				}()
				h()
			}()
			for _, fl := range nd.Failures {
				out.Labels = append(out.Labels, fl.Label)
			}
		}
		js, _ := json.Marshal(out)
		fmt.Printf("REPLAY %s\n", js)
	}
}
