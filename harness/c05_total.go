//go:build verif

package harness

import (
	"math"

	"github.com/theory/sqljson/path/exec"
	"harness/nd"
)

var _ = reg("C05_Pool", C05_Pool)

// finiteAll: every float64 inside v is finite.
func finiteAll(v any) bool {
	switch v := v.(type) {
	case float64:
		return !math.IsNaN(v) && !math.IsInf(v, 0)
	case []any:
		conds := []bool{}
		for _, x := range v {
			conds = append(conds, finiteAll(x))
		}
		return nd.All(conds...)
	case map[string]any:
		conds := []bool{}
		for _, x := range v {
			conds = append(conds, finiteAll(x))
		}
		return nd.All(conds...)
	}
	return true
}

// subValue: container c is (the same object as) a sub-value of root.
func subValue(c, root any) bool {
	if nd.SameObject(c, root) {
		return true
	}
	switch r := root.(type) {
	case []any:
		for _, x := range r {
			if subValue(c, x) {
				return true
			}
		}
	case map[string]any:
		for _, x := range r {
			if subValue(c, x) {
				return true
			}
		}
	}
	return false
}

func isKeyValueTriple(m map[string]any) bool {
	if len(m) != 3 {
		return false
	}
	_, a := m["id"]
	_, b := m["key"]
	_, c := m["value"]
	return a && b && c
}

// provenance: a returned container is a sub-value of the input or of a
// variable, or a keyvalue() triple (whose value is again such a value).
func provenance(v any, doc any, vars exec.Vars) bool {
	switch x := v.(type) {
	case []any:
		if subValue(x, doc) {
			return true
		}
		for _, r := range vars {
			if subValue(x, r) {
				return true
			}
		}
		return false
	case map[string]any:
		if subValue(x, doc) {
			return true
		}
		for _, r := range vars {
			if subValue(x, r) {
				return true
			}
		}
		if isKeyValueTriple(x) {
			return provenance(x["value"], doc, vars)
		}
		return false
	}
	return true
}

func classified(err error, allowNull bool, tag string) {
	if err == nil {
		return
	}
	nd.Assert(!isInvalid(err), tag+"/ErrInvalid-returned")
	if allowNull && err == exec.NULL {
		return
	}
	nd.Assert(isExec(err), tag+"/error-not-ErrExecution")
}

// C05_Pool: the five entry points on every pool path, lazily shaped
// documents (json.Number outside float64 range included), with and without
// WithSilent: no panic (built in), classified errors, finite numbers, frozen
// inputs, provenance of returned containers.
func C05_Pool() {
	src, doc, vars := poolCase()
	silent := nd.Choice(2) == 1
	opts := []exec.Option{exec.WithVars(vars)}
	if silent {
		opts = append(opts, exec.WithSilent())
	}
	p := parse(src)
	tag := "C05"
	nd.Freeze(doc, vars)
	entry := nd.Choice(5)
	switch entry {
	case 0:
		r, err := p.Query(bg, doc, opts...)
		classified(err, false, tag+"/Query")
		if err == nil {
			for _, it := range r {
				nd.Assert(finiteAll(it), tag+"/non-finite-number-returned")
				nd.Assert(provenance(it, doc, vars), tag+"/container-of-unknown-origin")
			}
		}
	case 1:
		r, err := p.First(bg, doc, opts...)
		classified(err, false, tag+"/First")
		if err == nil {
			nd.Assert(finiteAll(r), tag+"/non-finite-number-returned")
		}
	case 2:
		_, err := p.Exists(bg, doc, opts...)
		classified(err, true, tag+"/Exists")
	case 3:
		_, err := p.Match(bg, doc, opts...)
		classified(err, true, tag+"/Match")
	case 4:
		_, err := p.ExistsOrMatch(bg, doc, opts...)
		classified(err, true, tag+"/ExistsOrMatch")
	}
	w := nd.Thaw()
	nd.Assert(w == "", tag+"/input-modified")
	nd.Cover(tag + "/" + src)
}

var _ = reg("C05_Wide", C05_Wide)

var widePaths = []string{
	"X[0 to last]", "X[0 to 1, 1]", "X[1 to 2].type()", "X[*]", "X[last, 0]", "X[0 to 2] ? (@ == null)", "X[*] ? (@ > 1)",
	"X.**", "-X[*]", "X[*].double()", "X.size()", "X[0 to last] == null", "exists(X[1 to last])", "X[0 to 1][0 to last]",
	"X ? (@[0 to last] > 1)", "X[1 to last] + 1", "X[$i to $j]", "X[$i, $j to last]",
}

// C05_Wide: purity on arrays of three elements with nulls anywhere among
// them, reached as the document, as a member of it and as a variable:
// every loop over a range or a sequence, five entry points, both modes.
func C05_Wide() {
	elem := nd.Spec{Kinds: nd.KNull | nd.KFloat}
	a1 := []any{nd.JSON(elem), nd.JSON(elem), nd.JSON(elem)}
	a2 := []any{nd.JSON(elem), nd.JSON(elem), nd.JSON(elem)}
	var doc any = a1
	root := "$"
	switch nd.Choice(3) {
	case 1:
		doc, root = map[string]any{"a": a1}, "$.a"
	case 2:
		root = "$v"
	}
	bound := nd.Spec{Kinds: nd.KFloat | nd.KInt64}
	vars := exec.Vars{"v": a2, "i": nd.JSON(bound), "j": nd.JSON(bound)}
	tpl := widePaths[nd.Choice(len(widePaths))]
	src := ""
	for i := 0; i < len(tpl); i++ {
		if tpl[i] == 'X' {
			src += root
		} else {
			src += string(tpl[i])
		}
	}
	src = modePrefix() + src
	opts := []exec.Option{exec.WithVars(vars)}
	if nd.Choice(2) == 1 {
		opts = append(opts, exec.WithSilent())
	}
	p := parse(src)
	tag := "C05/wide"
	nd.Freeze(doc, vars)
	switch nd.Choice(5) {
	case 0:
		r, err := p.Query(bg, doc, opts...)
		classified(err, false, tag+"/Query")
		if err == nil {
			for _, it := range r {
				nd.Assert(finiteAll(it), tag+"/non-finite-number-returned")
				nd.Assert(provenance(it, doc, vars), tag+"/container-of-unknown-origin")
			}
		}
	case 1:
		_, err := p.First(bg, doc, opts...)
		classified(err, false, tag+"/First")
	case 2:
		_, err := p.Exists(bg, doc, opts...)
		classified(err, true, tag+"/Exists")
	case 3:
		_, err := p.Match(bg, doc, opts...)
		classified(err, true, tag+"/Match")
	case 4:
		_, err := p.ExistsOrMatch(bg, doc, opts...)
		classified(err, true, tag+"/ExistsOrMatch")
	}
	w := nd.Thaw()
	nd.Assert(w == "", tag+"/input-modified")
	nd.Cover(tag + "/" + src)
}
