//go:build verif

package harness

import (
	"context"
	"encoding/json"
	"errors"
	"math"

	"github.com/theory/sqljson/path"
	"github.com/theory/sqljson/path/exec"
	"harness/nd"
)

var bg = context.Background()

func isVerbose(err error) bool { return errors.Is(err, exec.ErrVerbose) }
func isExec(err error) bool    { return errors.Is(err, exec.ErrExecution) }
func isInvalid(err error) bool { return errors.Is(err, exec.ErrInvalid) }

// hardErr: an execution error that WithSilent must not suppress.
func hardErr(err error) bool { return err != nil && isExec(err) && !isVerbose(err) }

func parse(s string) *path.Path { return path.MustParse(s) }

// numView classifies a numeric item the way the documented rules do:
// an integer (int64, or a json.Number holding an int64 literal) or a double.
func numView(v any) (isNum, isInt bool, i int64, f float64) {
	switch v := v.(type) {
	case int64:
		return true, true, v, float64(v)
	case float64:
		return true, false, 0, v
	case json.Number:
		if i, err := v.Int64(); err == nil {
			return true, true, i, float64(i)
		}
		if f, err := v.Float64(); err == nil {
			return true, false, 0, f
		}
		return false, false, 0, 0
	}
	return false, false, 0, 0
}

func finite(f float64) bool { return !math.IsNaN(f) && !math.IsInf(f, 0) }

var numSpec = nd.Spec{Kinds: nd.KFloat | nd.KNumber | nd.KInt64}
