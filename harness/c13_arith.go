//go:build verif

package harness

import (
	"math"

	"github.com/theory/sqljson/path/exec"
	"harness/nd"
)

var _ = reg("C13_Binary", C13_Binary)
var _ = reg("C13_Unary", C13_Unary)
var _ = reg("C13_Operands", C13_Operands)
var _ = reg("C13_Commute", C13_Commute)

var mathOps = []string{"+", "-", "*", "/", "%"}

// C13_Binary: `$a op $b` for every pairing of the three numeric
// representations and every operator; operands are unconstrained.
func C13_Binary() {
	opi := nd.Choice(5)
	op := mathOps[opi]
	p := parse("$a " + op + " $b")
	av, bv := nd.JSON(numSpec), nd.JSON(numSpec)
	_, aInt, a, af := numView(av)
	_, bInt, b, bf := numView(bv)
	r, err := p.Query(bg, nil, exec.WithVars(exec.Vars{"a": av, "b": bv}))
	tag := "C13/" + op + "/"
	if aInt && bInt {
		tag += "int"
	} else {
		tag += "float"
	}
	nd.Cover(tag)
	divZero := (opi == 3 || opi == 4) && ((aInt && bInt && b == 0) || (!(aInt && bInt) && bf == 0))
	if divZero {
		nd.Assert(err != nil && isVerbose(err), tag+"/div-by-zero-not-suppressible-error")
		return
	}
	if err != nil {
		// the only other admissible failure is a loud one for a result that
		// does not fit: it must be the suppressible class
		nd.Assert(isVerbose(err), tag+"/error-class")
		nd.Assert(!nd.All(aInt, bInt) || intOverflows(opi, a, b), tag+"/spurious-error")
		if !(aInt && bInt) {
			nd.Assert(!finite(floatOp(opi, af, bf)), tag+"/spurious-error-float")
		}
		return
	}
	nd.Assert(len(r) == 1, tag+"/one-result")
	if len(r) != 1 {
		return
	}
	switch v := r[0].(type) {
	case int64:
		nd.Assert(aInt && bInt, tag+"/int-result-from-float-operand")
		if !(aInt && bInt) {
			return
		}
		switch opi {
		case 0:
			nd.Assert(!nd.AddOverflows(a, b), tag+"/wrapped")
			nd.Assert(v == a+b, tag+"/value")
		case 1:
			nd.Assert(!nd.SubOverflows(a, b), tag+"/wrapped")
			nd.Assert(v == a-b, tag+"/value")
		case 2:
			nd.Assert(!nd.MulOverflows(a, b), tag+"/wrapped")
			nd.Assert(v == a*b, tag+"/value")
		case 3:
			// sign law of truncated division (the quotient itself is the
			// engine's bvsdiv and is not re-derived)
			sameSign := (a < 0) == (b < 0)
			nd.Assert(nd.Implies(sameSign, v >= 0), tag+"/wrapped")
			nd.Assert(nd.Implies(!sameSign, v <= 0), tag+"/sign")
		case 4:
			nd.Assert(nd.Any(v == 0, (v < 0) == (a < 0)), tag+"/sign")
			nd.Assert(nd.Implies(b > 0, nd.All(v < b, v > -b)), tag+"/magnitude")
			nd.Assert(nd.Implies(b < 0, nd.All(v > b, nd.Any(b == math.MinInt64, v < -b))), tag+"/magnitude")
		}
	case float64:
		nd.Assert(finite(v), tag+"/non-finite-result")
		if aInt && bInt {
			// allowed only when the exact integer result does not fit
			// (or, for division, as the exact quotient)
			if opi != 3 {
				nd.Assert(intOverflows(opi, a, b), tag+"/float-result-from-int-operands")
			}
		}
		if opi != 4 {
			nd.Assert(v == floatOp(opi, af, bf), tag+"/float-value")
		} else {
			nd.Assert(nd.Any(v == 0, (v < 0) == (af < 0)), tag+"/float-mod-sign")
			nd.Assert(math.Abs(v) < math.Abs(bf) || math.IsInf(bf, 0), tag+"/float-mod-magnitude")
		}
	default:
		nd.Assert(false, tag+"/result-kind")
	}
}

func intOverflows(opi int, a, b int64) bool {
	switch opi {
	case 0:
		return nd.AddOverflows(a, b)
	case 1:
		return nd.SubOverflows(a, b)
	case 2:
		return nd.MulOverflows(a, b)
	case 3, 4:
		return nd.All(a == math.MinInt64, b == -1)
	}
	return false
}

func floatOp(opi int, a, b float64) float64 {
	switch opi {
	case 0:
		return a + b
	case 1:
		return a - b
	case 2:
		return a * b
	case 3:
		return a / b
	}
	return math.Mod(a, b)
}

var anySpec1 = nd.Spec{Kinds: nd.KScalars | nd.KInt64 | nd.KArray | nd.KObject, Depth: 1, Width: 1, StrLen: 1, Keys: []string{"a"}}

// C13_Unary: unary + and - map over every numeric item of the operand
// sequence and reject non-numeric items; -x never wraps.
func C13_Unary() {
	neg := nd.Choice(2) == 1
	src := "+$[*]"
	if neg {
		src = "-$[*]"
	}
	strict := nd.Choice(2) == 1
	if strict {
		src = "strict " + src
	}
	p := parse(src)
	n := nd.Choice(3)
	doc := make([]any, n)
	for i := range doc {
		doc[i] = nd.JSON(anySpec1)
	}
	r, err := p.Query(bg, doc)
	tag := "C13/unary"
	// operand sequence: in lax mode array items are unwrapped one level
	var seq []any
	for _, it := range doc {
		if a, ok := it.([]any); ok && !strict {
			seq = append(seq, a...)
		} else {
			seq = append(seq, it)
		}
	}
	n = len(seq)
	// expected: every item numeric -> one result per item
	allNum := true
	for _, it := range seq {
		isNum, _, _, _ := numView(it)
		if !isNum {
			allNum = false
		}
	}
	if !allNum {
		nd.Cover(tag + "/non-numeric")
		nd.Assert(err != nil && isVerbose(err), tag+"/non-numeric-item-must-be-suppressible-error")
		return
	}
	if err != nil {
		nd.Assert(isVerbose(err), tag+"/error-class")
		// only admissible for an integer whose negation does not fit
		bad := false
		for _, it := range seq {
			_, isInt, i, _ := numView(it)
			if isInt && neg && i == math.MinInt64 {
				bad = true
			}
		}
		nd.Assert(bad, tag+"/spurious-error")
		return
	}
	nd.Assert(len(r) == n, tag+"/one-result-per-item")
	if len(r) != n {
		return
	}
	for k := range seq {
		_, isInt, i, f := numView(seq[k])
		switch v := r[k].(type) {
		case int64:
			nd.Assert(isInt, tag+"/int-from-float")
			if neg {
				nd.Assert(i != math.MinInt64, tag+"/wrapped")
				nd.Assert(v == -i, tag+"/value")
			} else {
				nd.Assert(v == i, tag+"/value")
			}
		case float64:
			if isInt {
				nd.Assert(nd.All(neg, i == math.MinInt64), tag+"/float-from-int")
			}
			if neg {
				nd.Assert(v == -f, tag+"/float-value")
			} else {
				nd.Assert(v == f, tag+"/float-value")
			}
		default:
			nd.Assert(false, tag+"/result-kind")
		}
	}
	nd.Cover(tag + "/numeric")
}

// C13_Operands: binary operators need exactly one numeric item per side
// (after lax unwrapping); anything else is a suppressible error.
func C13_Operands() {
	opi := nd.Choice(5)
	side := nd.Choice(2)
	strict := nd.Choice(2) == 1
	src := "$[*] " + mathOps[opi] + " 2"
	if side == 1 {
		src = "7 " + mathOps[opi] + " $[*]"
	}
	if strict {
		src = "strict " + src
	}
	p := parse(src)
	n := nd.Choice(3)
	doc := make([]any, n)
	for i := range doc {
		doc[i] = nd.JSON(anySpec1)
	}
	r, err := p.Query(bg, doc)
	tag := "C13/operands"
	// operand sequence after lax unwrapping of the *result* items
	var seq []any
	for _, it := range doc {
		if a, ok := it.([]any); ok && !strict {
			seq = append(seq, a...)
		} else {
			seq = append(seq, it)
		}
	}
	ok := false
	if len(seq) == 1 {
		ok, _, _, _ = numView(seq[0])
	}
	if !ok {
		nd.Cover(tag + "/reject")
		nd.Assert(err != nil && isVerbose(err), tag+"/must-be-suppressible-error")
		return
	}
	nd.Cover(tag + "/accept")
	_, isInt, i, f := numView(seq[0])
	zero := side == 1 && (opi == 3 || opi == 4) && ((isInt && i == 0) || (!isInt && f == 0))
	if zero {
		nd.Assert(err != nil && isVerbose(err), tag+"/div-by-zero")
		return
	}
	if err == nil {
		nd.Assert(len(r) == 1, tag+"/one-result")
	} else {
		nd.Assert(isVerbose(err), tag+"/error-class")
	}
}

// C13_Commute: x+y = y+x, x*y = y*x, -(-x) = x across representations.
func C13_Commute() {
	av, bv := nd.JSON(numSpec), nd.JSON(numSpec)
	vars := exec.WithVars(exec.Vars{"a": av, "b": bv})
	which := nd.Choice(3)
	var l, r2 string
	switch which {
	case 0:
		l, r2 = "$a + $b", "$b + $a"
	case 1:
		l, r2 = "$a * $b", "$b * $a"
	case 2:
		l, r2 = "-(-$a)", "$a + 0"
	}
	x, ex := parse(l).Query(bg, nil, vars)
	y, ey := parse(r2).Query(bg, nil, vars)
	tag := "C13/commute/" + l
	if which == 2 {
		// -(-x) = x whenever both evaluate
		if ex != nil || ey != nil {
			return
		}
	} else {
		nd.Assert((ex == nil) == (ey == nil), tag+"/error-asymmetry")
		if ex != nil || ey != nil {
			return
		}
	}
	if len(x) != 1 || len(y) != 1 {
		return
	}
	_, xi, xv, xf := numView(x[0])
	_, yi, yv, yf := numView(y[0])
	switch {
	case xi && yi:
		nd.Assert(xv == yv, tag+"/value")
	case !xi && !yi:
		nd.Assert(xf == yf, tag+"/float-value")
	case xi:
		// same number in two representations (e.g. -(-MinInt64) is the double -2^63)
		nd.Assert(nd.CmpIntFloat(xv, yf) == 0, tag+"/mixed-value")
	default:
		nd.Assert(nd.CmpIntFloat(yv, xf) == 0, tag+"/mixed-value")
	}
}
