//go:build verif

package harness

import (
	"time"

	"github.com/theory/sqljson/path"
	"github.com/theory/sqljson/path/exec"
	"github.com/theory/sqljson/path/types"
	"harness/nd"
)

var _ = reg("C19_Frame", C19_Frame)
var _ = reg("C19_ParseFrame", C19_ParseFrame)
var _ = reg("C19_History", C19_History)

// C19_Frame: the frame condition behind race freedom: with the parsed path,
// the document, the variables and all package-level state of the four
// packages frozen, no entry point (nor String) stores into frozen memory on
// any path. Two calls that write only memory they allocated themselves
// cannot race and cannot observe one another.
func C19_Frame() {
	src, doc, vars := poolCase()
	p := parse(src)
	opts := []exec.Option{exec.WithVars(vars)}
	if nd.Choice(2) == 1 {
		opts = append(opts, exec.WithSilent())
	}
	// options given more than once: the caller's maps stay the caller's
	more := exec.Vars{"w": float64(1), "v": float64(2)}
	if nd.Choice(2) == 1 {
		opts = append(opts, exec.WithVars(more), exec.WithTZ())
	}
	nd.Freeze(p, doc, vars, more)
	switch nd.Choice(6) {
	case 0:
		p.Query(bg, doc, opts...)
	case 1:
		p.First(bg, doc, opts...)
	case 2:
		p.Exists(bg, doc, opts...)
	case 3:
		p.Match(bg, doc, opts...)
	case 4:
		_ = p.String()
		_ = p.PgIndexOperator()
	case 5:
		p.ExistsOrMatch(bg, doc, opts...)
	}
	w := nd.Thaw()
	nd.Assert(w == "", "C19/write-to-shared-state")
}

// C19_ParseFrame: Parse writes only memory it allocates (the goyacc tables
// and the package-level parser switches are frozen).
func C19_ParseFrame() {
	src := modePrefix() + poolPaths[nd.Choice(len(poolPaths))]
	nd.Freeze()
	p, err := path.Parse(src)
	w := nd.Thaw()
	nd.Assert(err == nil && p != nil, "C19/parse-failed")
	nd.Assert(w == "", "C19/parse-writes-shared-state")
}

// C19_History: a query returns the same result whatever was executed on the
// same *Path before.
func C19_History() {
	src, doc, vars := poolCase()
	p := parse(src)
	var other any = []any{map[string]any{"a": float64(1), "b": "x"}, float64(2)}
	if nd.Thorough() {
		other = nd.JSON(poolDocSpec())
	}
	o := exec.WithVars(vars)
	// some history on p
	switch nd.Choice(3) {
	case 0:
		p.Query(bg, other, o)
	case 1:
		p.Exists(bg, other, o, exec.WithSilent())
	case 2:
		p.Query(bg, doc, o)
		_ = p.String()
	}
	a, aerr := p.Query(bg, doc, o)
	fresh := parse(src)
	b, berr := fresh.Query(bg, doc, o)
	nd.Assert(errClass(aerr) == errClass(berr), "C19/history-changes-error")
	if aerr == nil && berr == nil {
		nd.Assert(sameSeq(a, b, refPermutable(src)), "C19/history-changes-result")
	}
	nd.Assert(p.String() == fresh.String(), "C19/history-changes-String")
}

var _ = reg("C19_Repeat", C19_Repeat)

// paths through the constructs that keep per-execution state in the
// executor (generated object ids, the innermost array size, the current
// item, compiled regular expressions, the structural-error switch)
var repeatPaths = []string{
	"$.keyvalue().keyvalue()", "$.keyvalue().value.keyvalue().id", "$[*].keyvalue().id", "$.keyvalue() ? (@.id > 0).key",
	"$.*.keyvalue().keyvalue().id", "$[last]", "$ ? (@.a like_regex \"^a\")", "$.** ? (@.a == 1)", "$[*] ? (@[last] > 1)",
	"$.keyvalue().keyvalue() ? (@.id == 20000000000)",
}

// C19_Repeat: an execution does not depend on any earlier execution, of the
// same parsed path or of another one: the first execution in a fresh process
// state and a later one, after other paths ran (executor-internal state such
// as the generated-object counter, or anything pooled or cached between
// runs, would show), return the same result.
func C19_Repeat() {
	src := modePrefix() + repeatPaths[nd.Choice(len(repeatPaths))]
	es := nd.Spec{Kinds: nd.KFloat | nd.KString | nd.KArray | nd.KObject, Depth: 1, Width: 1, StrLen: 1, Keys: []string{"a", "b"}, ASCII: true}
	var doc any
	if nd.Choice(2) == 0 {
		doc = []any{nd.JSON(es), nd.JSON(es)}
	} else {
		doc = map[string]any{"a": nd.JSON(es), "b": nd.JSON(es)}
	}
	p := parse(src)
	nd.Freeze(p, doc)
	a, aerr := p.Query(bg, doc)
	ea, eaerr := p.Exists(bg, doc)
	// history: the same path again, or another path, on this or another document
	switch nd.Choice(4) {
	case 0:
		p.Query(bg, doc)
	case 1:
		parse("$.keyvalue().keyvalue()").Query(bg, map[string]any{"x": true, "y": "hi"})
	case 2:
		parse("strict $[*].keyvalue().id").Query(bg, doc, exec.WithSilent())
		parse("$[last, 0] ? (@ like_regex \"b\")").First(bg, doc)
	case 3:
		p.Exists(bg, []any{map[string]any{"a": float64(1)}})
	}
	b, berr := p.Query(bg, doc)
	eb, eberr := p.Exists(bg, doc)
	w := nd.Thaw()
	// the id of an object reached through the value of a generated triple is
	// its address distance from that freshly allocated triple (known finding)
	tag := "C19/repeat"
	if contains(src, ".value.keyvalue()") {
		tag += " [id-relative-to-generated-object]"
	}
	nd.Assert(w == "", tag+"/write-to-shared-state")
	nd.Assert(errClass(aerr) == errClass(berr), tag+"/error-depends-on-history")
	if aerr == nil && berr == nil {
		nd.Assert(sameSeq(a, b, false), tag+"/result-depends-on-history")
	}
	nd.Assert(ea == eb && (eaerr == nil) == (eberr == nil), tag+"/Exists-depends-on-history")
}

var _ = reg("C19_ZoneHistory", C19_ZoneHistory)

// C19_ZoneHistory: casts in one context zone after casts in another zone
// that has the same abbreviation and a different offset (anything remembered
// per zone name between calls would show): the second run's values are
// checked against the time package, as in C17_CastValues.
func C19_ZoneHistory() {
	var za, zb *time.Location
	if nd.Choice(3) == 2 {
		a, err1 := time.LoadLocation("Asia/Shanghai")
		b, err2 := time.LoadLocation("America/Chicago")
		if err1 != nil || err2 != nil {
			return
		}
		za, zb = a, b
		if nd.Choice(2) == 1 {
			za, zb = zb, za
		}
	} else {
		pairs := [][2]int{{19800, 7200}, {7200, 19800}, {-21600, 28800}, {3600, 3600}}
		pr := pairs[nd.Choice(len(pairs))]
		za, zb = time.FixedZone("IST", pr[0]), time.FixedZone("IST", pr[1])
	}
	castValues(types.ContextWithTZ(bg, za), za, "C19/zone-history/first", func() string { return "2" })
	castValues(types.ContextWithTZ(bg, zb), zb, "C19/zone-history/second", digit)
}
