//go:build verif

package harness

// Harnesses maps harness names to their entry points (used by native replay;
// the symbolic executor finds them by name in the SSA package).
var Harnesses = map[string]func(){}

func reg(name string, f func()) bool { Harnesses[name] = f; return true }
