//go:build verif

package harness

import (
	"errors"

	"github.com/theory/sqljson/path"
	"github.com/theory/sqljson/path/parser"
	"harness/nd"
)

var _ = reg("C04_ASCII", C04_ASCII)
var _ = reg("C04_Bytes", C04_Bytes)
var _ = reg("C04_Runes", C04_Runes)
var _ = reg("C04_Ints", C04_Ints)
var _ = reg("C04_Numerics", C04_Numerics)
var _ = reg("C04_Signs", C04_Signs)
var _ = reg("C04_Placement", C04_Placement)
var _ = reg("C04_Wrappers", C04_Wrappers)
var _ = reg("C04_Inject", C04_Inject)
var _ = reg("C04_Regex", C04_Regex)

// parseTotal runs Parse under recover and checks its contract.
func parseTotal(tag, s string) (*path.Path, error) {
	var p *path.Path
	var err error
	panicked := true
	func() {
		defer func() {
			if r := recover(); r != nil {
				_ = r
			}
		}()
		p, err = path.Parse(s)
		panicked = false
	}()
	nd.Assert(!panicked, tag+"/Parse-panics")
	if panicked {
		return nil, nil
	}
	nd.Assert((p == nil) != (err == nil), tag+"/path-and-error-both-or-neither")
	if err != nil {
		nd.Assert(errors.Is(err, path.ErrPath) && errors.Is(err, parser.ErrParse), tag+"/error-does-not-wrap-ErrPath-and-ErrParse")
	}
	return p, err
}

// C04_ASCII: every string of up to N ASCII bytes (1..127).
func C04_ASCII() {
	n := 3
	if nd.Thorough() {
		n = 4
	}
	parseTotal("C04/ascii", nd.ASCII(n))
}

var byteContexts = [][2]string{
	{"", ""}, {"$.", ""}, {"$ ? (@ == \"", "\")"}, {"$.a", " "}, {"$", ".a"}, {"$.\"", "\""}, {"/*", "*/$"}, {"$x", ""},
}

// C04_Bytes: arbitrary bytes (NUL, invalid and valid multi-byte UTF-8) of
// length <= 3 (thorough 4) in each lexical context.
func C04_Bytes() {
	n := 2
	if nd.Thorough() {
		n = 4
	}
	c := byteContexts[nd.Choice(len(byteContexts))]
	parseTotal("C04/bytes", c[0]+nd.String(n)+c[1])
}

// C04_Runes: every three-byte sequence (valid code points U+0800..U+FFFF,
// surrogates, overlong forms, truncated sequences) as a token of its own,
// inside an identifier and inside a string: lead byte forked, the two
// continuation bytes symbolic.
func C04_Runes() {
	var lead byte
	if nd.Thorough() {
		lead = byte(0xE0 + nd.Choice(16))
	} else {
		// overlong boundary, a typical lead, surrogates, private use, specials
		lead = []byte{0xE0, 0xE2, 0xED, 0xEE, 0xEF}[nd.Choice(5)]
	}
	rest := nd.StringN(2)
	r := string([]byte{lead}) + rest
	c := [][2]string{{"", ""}, {"$.a", ""}, {"$ ? (@ == \"", "\")"}, {"$.", "b"}}[nd.Choice(4)]
	parseTotal("C04/runes", c[0]+r+c[1])
}

func isDigits(s string, base int) bool {
	conds := []bool{}
	for i := 0; i < len(s); i++ {
		c := s[i]
		switch base {
		case 10:
			conds = append(conds, c >= '0' && c <= '9')
		case 8:
			conds = append(conds, c >= '0' && c <= '7')
		case 2:
			conds = append(conds, c >= '0' && c <= '1')
		default:
			conds = append(conds, nd.Any(c >= '0' && c <= '9', c >= 'a' && c <= 'f', c >= 'A' && c <= 'F'))
		}
	}
	return nd.All(conds...)
}

// intTemplates: (prefix, number of symbolic digits, suffix, base): the two
// symbolic digits sit where the literal crosses the int64 range.
var intTemplates = []struct {
	pre  string
	suf  string
	base int
}{
	{"", "", 10}, {"92233720368547758", "", 10}, {"", "00000000000000000", 10}, {"", "000000000000000000", 10},
	{"9223372036854775", "7", 10}, {"1", "000000000000000000", 10}, {"0", "", 10},
	{"0x", "", 16}, {"0x7fffffffffffff", "", 16}, {"0x", "ffffffffffffff", 16}, {"0x", "fffffffffffffff", 16}, {"0X7FFFFFFFFFFFFF", "", 16},
	{"0o", "", 8}, {"0o7777777777777777777", "", 8}, {"0o", "77777777777777777777", 8}, {"0o1", "00000000000000000000", 8},
	{"0b", "", 2}, {"0b" + ones(61), "", 2}, {"0b", ones(62), 2}, {"0b1", ones(62), 2}, {"0b1", ones(63), 2},
	{"1_0", "", 10}, {"1_", "_0", 10}, {"0x_", "", 16}, {"0b1_", "", 2},
}

func ones(n int) string {
	s := ""
	for i := 0; i < n; i++ {
		s += "1"
	}
	return s
}

// C04_Ints: integer literals in all four radixes whose two symbolic digits
// make them cross the int64 range (and the underscore rules): in range or
// out of range, Parse returns a path or a parse error, in every context.
func C04_Ints() {
	t := intTemplates[nd.Choice(len(intTemplates))]
	d := nd.ASCIIN(2)
	nd.Assume(isDigits(d, t.base))
	lit := t.pre + d + t.suf
	var s string
	switch nd.Choice(6) {
	case 0:
		s = lit
	case 1:
		s = "-" + lit
	case 2:
		s = "$[" + lit + "]"
	case 3:
		s = "$.a.decimal(" + lit + ")"
	case 4:
		s = "$.**{" + lit + "}"
	case 5:
		s = "$.a.time(" + lit + ")"
	}
	p, _ := parseTotal("C04/int-literal", s)
	if p != nil {
		nd.Cover("C04/int-literal/accepted")
	} else {
		nd.Cover("C04/int-literal/rejected")
	}
}

// C04_Numerics: d[.d]e[+-]dd0 forms with symbolic exponent digits, covering
// exponents far outside the float64 range.
func C04_Numerics() {
	m := []string{"1", "9", "0", "17976931348623157"}[nd.Choice(4)]
	e := nd.ASCIIN(2)
	nd.Assume(isDigits(e, 10))
	forms := []string{m + "e" + e + "0", m + "e+" + e + "0", m + "e-" + e + "0", m + ".5e" + e + "0", "." + m + "e" + e + "0", m + ".e" + e, "-" + m + "e" + e + "0", m + "e" + e, m + "." + e + "e30" + e}
	s := forms[nd.Choice(len(forms))]
	p, _ := parseTotal("C04/numeric-literal", s)
	if p != nil {
		nd.Cover("C04/numeric-literal/accepted")
	} else {
		nd.Cover("C04/numeric-literal/rejected")
	}
}

var signTokens = []string{"-", "+", "- ", "+ ", "-(", "+("}
var signOperands = []string{"1", "1.5", "0x10", "$a", "1.abs()", "(1)", "\"s\"", "$.a", "1e2", ".5"}

// C04_Signs: every sign sequence of length <= 3 before every kind of operand,
// with and without parentheses.
func C04_Signs() {
	n := 1 + nd.Choice(3)
	s := ""
	closing := ""
	for i := 0; i < n; i++ {
		t := signTokens[nd.Choice(len(signTokens))]
		s += t
		if t[len(t)-1] == '(' {
			closing += ")"
		}
	}
	s += signOperands[nd.Choice(len(signOperands))] + closing
	suffix := []string{"", ".abs()", " + 1", " * -1", " == -1"}[nd.Choice(5)]
	p, err := parseTotal("C04/signs", s+suffix)
	nd.Assert(p != nil || err != nil, "C04/signs/no-result")
}

var placeTemplates = []struct {
	src   string
	valid bool
}{
	{"$ ? (@.a == 1)", true}, {"@", false}, {"@.a", false}, {"$.a[@]", false}, {"$ ? (@ > 1).b[@.c]", false},
	{"$[last]", true}, {"last", false}, {"$.a ? (last == 1)", false}, {"$[0] ? (@ == last)", false}, {"$[$.a ? (@ == last)]", true},
	{"$[last] ? (@[last] == 1)", true}, {"$ ? (@[last] > 0)", true}, {"$[1 to last]", true}, {"$.last", true}, {"$.a + last", false},
	{"$[@]", false}, {"$ ? ($[@.a] == 1)", true}, {"exists(@)", false}, {"$ ? (exists(@ ? (@ == 1)))", true}, {"$.**{last}", true},
	{"$.**{1 to last}", true}, {"$ ? (@ like_regex \"a\" flag \"i\")", true}, {"$ ? (@ like_regex \"a\" flag \"x\")", false},
	{"$ ? (@ like_regex \"a\" flag \"xq\")", true}, {"$ ? (@ like_regex \"a\" flag \"z\")", false}, {"$ ? (@ like_regex \"(\")", false},
	{"$ ? (@ like_regex \"(\" flag \"q\")", true}, {"$.a.decimal(1,2,3)", false}, {"$.a.datetime(\"x\")", true}, {"$.a.time(-1)", false},
	{"$ /* c */ .a", true}, {"$ /* c", false}, {"\"abc", false}, {"\"a\\u00\"", false}, {"$.\"a\\x4\"", false}, {"$[1,]", false},
	{"1_000", true}, {"1__0", false}, {"0x_1", false}, {"1e", false}, {"1.e1", true}, {"01", false}, {"0b12", false}, {"1a", false},
}

// C04_Placement: near-misses of every validity rule, in lax and strict
// renderings, with arbitrary trailing whitespace.
func C04_Placement() {
	t := placeTemplates[nd.Choice(len(placeTemplates))]
	src := modePrefix() + t.src + []string{"", " ", "\n", "\t "}[nd.Choice(4)]
	p, _ := parseTotal("C04/rules "+t.src, src)
	nd.Assert((p != nil) == t.valid, "C04/rules/accepts-or-rejects-wrongly "+t.src)
}

// C04_Wrappers: MustParse panics exactly when Parse errs; Scan (string and
// []byte), UnmarshalText and UnmarshalBinary report the same failures wrapped
// in ErrScan.
func C04_Wrappers() {
	var s string
	if nd.Choice(2) == 0 {
		s = nd.ASCII(2)
	} else {
		s = placeTemplates[nd.Choice(len(placeTemplates))].src
	}
	_, perr := parseTotal("C04/wrappers", s)
	// MustParse
	panicked := true
	func() {
		defer func() { recover() }()
		path.MustParse(s)
		panicked = false
	}()
	nd.Assert(panicked == (perr != nil), "C04/MustParse-panics-iff-Parse-errs")
	check := func(name string, err error, emptyOK bool) {
		if emptyOK && s == "" {
			nd.Assert(err == nil, "C04/"+name+"/empty-input")
			return
		}
		nd.Assert((err != nil) == (perr != nil), "C04/"+name+"/disagrees-with-Parse")
		if err != nil {
			nd.Assert(errors.Is(err, path.ErrScan) && errors.Is(err, parser.ErrParse), "C04/"+name+"/error-chain")
		}
	}
	var p1, p2, p3, p4 path.Path
	check("Scan(string)", p1.Scan(s), true)
	check("Scan([]byte)", p2.Scan([]byte(s)), true)
	check("UnmarshalText", p3.UnmarshalText([]byte(s)), false)
	check("UnmarshalBinary", p4.UnmarshalBinary([]byte(s)), false)
}

var rePatterns = []string{"a", "a.b", "^a$", "[", "(", ")", "a{2}", "a{2,1}", "\\d", "(?i)a", "a**", "\\", "[a-", "(?P<n>a)", "\\pL", "\\Q", ".*+"}

// C04_Regex: flag strings of <= 2 symbolic bytes x patterns: what Parse
// accepts compiles at execution time (no panic when the path is executed).
func C04_Regex() {
	pat := rePatterns[nd.Choice(len(rePatterns))]
	flags := nd.ASCII(2)
	nd.Assume(isFlagText(flags))
	src := "$ ? (@ like_regex " + quoteLit(pat) + " flag \"" + flags + "\")"
	p, _ := parseTotal("C04/regex", src)
	if p == nil {
		nd.Cover("C04/regex/rejected")
		return
	}
	nd.Cover("C04/regex/accepted")
	panicked := true
	func() {
		defer func() { recover() }()
		p.Query(bg, "xay")
		panicked = false
	}()
	nd.Assert(!panicked, "C04/regex/accepted-pattern-does-not-compile-at-execution")
}

// isFlagText: bytes that need no escaping inside a quoted flag string.
func isFlagText(s string) bool {
	conds := []bool{}
	for i := 0; i < len(s); i++ {
		conds = append(conds, nd.All(s[i] >= 'a', s[i] <= 'z'))
	}
	return nd.All(conds...)
}

func quoteLit(s string) string {
	out := "\""
	for i := 0; i < len(s); i++ {
		if s[i] == '\\' || s[i] == '"' {
			out += "\\"
		}
		out += string(s[i])
	}
	return out + "\""
}

var injectHeads = []string{"$", "$.a", "$v", "(1)", "(1.5)", "(1 + 2)", "(-$a)", "(-1)", "($.a == 1)", "($.a == 1 && $.b == 2)", "\"s\"", "(1).abs()", "$.a ? (@ > 1)", "$[0]", "$.**", "$.a.b.c", "(1 * $.a)", "($a starts with \"x\")", "(!($.a == 1))", "null", "true"}

var injectTails = []struct {
	tail  string
	valid bool
}{
	{"[@]", false}, {"[0 to @]", false}, {".b[@.c]", false}, {" ? (last > 0)", false}, {".b ? (@ > last)", false}, {"[last][@]", false},
	{".b.c[@]", false}, {"[*] ? (@ > 0)[@]", false}, {".x ? (@.y[last] > 0 && last == 1)", false}, {"[0, @]", false},
	{"[last]", true}, {" ? (@ > 0)", true}, {".b[last]", true}, {"[0 to last]", true}, {".b ? (@[last] > 0)", true}, {"[*] ? (@ > 0)[last]", true},
}

// C04_Inject: @ outside a filter and last outside a subscript are rejected
// whatever precedes them: every kind of head expression followed by
// accessors that contain the misplaced symbol (and the well-placed
// counterparts are accepted).
func C04_Inject() {
	h := injectHeads[nd.Choice(len(injectHeads))]
	t := injectTails[nd.Choice(len(injectTails))]
	src := modePrefix() + h + t.tail
	p, _ := parseTotal("C04/inject", src)
	if t.valid {
		nd.Assert(p != nil, "C04/inject/well-placed-symbol-rejected "+t.tail)
	} else {
		nd.Assert(p == nil, "C04/inject/misplaced-symbol-accepted "+t.tail)
	}
}

var _ = reg("C04_AfterError", C04_AfterError)

// constructs that the grammar actions (not the grammar) reject
var actionErrors = []string{
	"($ like_regex \"(\")", "($ like_regex \"a\" flag \"x\")", "($ like_regex \"a\" flag \"iz\")", "$.a.decimal(1,2,3)", "$.a.decimal(1,2,3,4)",
	"(9223372036854775808)", "(1e400)", "$ ? (@ like_regex \"[\")", "($.a like_regex \"a{2,1}\")",
}

var afterErrorTails = []string{
	"[0]", ".*", "?(1==1)", ".a", ".type()", "[*]", ".**", " + 1", "[last]", ".decimal(1)", ".**{1}", ".keyvalue()", " == 1", " is unknown",
	".datetime(\"a\")", "[0 to 1]", ".a.b", " && 1 == 1", ")", "",
}

// C04_AfterError: Parse stays total when input goes on after a construct
// that a grammar action rejected (invalid regular expression or flag, too
// many .decimal() arguments, literal out of range): every such construct
// followed by every accessor / operator, with one further symbolic ASCII
// byte: an error, never a panic, never a path.
func C04_AfterError() {
	h := actionErrors[nd.Choice(len(actionErrors))]
	t := afterErrorTails[nd.Choice(len(afterErrorTails))]
	extra := ""
	if nd.Choice(2) == 1 {
		extra = nd.ASCII(1)
	}
	p, _ := parseTotal("C04/after-error", h+t+extra)
	nd.Assert(p == nil, "C04/after-error/invalid-construct-accepted "+h)
}
