//go:build verif

package harness

import (
	"context"
	"time"

	"github.com/theory/sqljson/path/exec"
	"github.com/theory/sqljson/path/types"
	"harness/nd"
)

var _ = reg("C17_Casts", C17_Casts)
var _ = reg("C17_Compare", C17_Compare)
var _ = reg("C17_Precision", C17_Precision)
var _ = reg("C17_Transitive", C17_Transitive)

const (
	tDate = iota
	tTime
	tTimeTZ
	tTimestamp
	tTimestampTZ
)

var typeNames = []string{"date", "time without time zone", "time with time zone", "timestamp without time zone", "timestamp with time zone"}
var castMethods = []string{"datetime", "date", "time", "time_tz", "timestamp", "timestamp_tz"}

// dtString builds a datetime string of the given type; one digit of the day
// / hour / offset is symbolic (ranging over '0'..'9').
func dtString(k int, d string) string {
	switch k {
	case tDate:
		return "2015-08-0" + d
	case tTime:
		return "1" + d + ":34:56"
	case tTimeTZ:
		return []string{"12:34:56+0" + d + ":00", "1" + d + ":34:56-05:30", "12:34:56Z", "0" + d + ":00:00+14:00"}[nd.Choice(4)]
	case tTimestamp:
		return []string{"2015-08-0" + d + "T12:34:56", "2015-08-02 0" + d + ":34:56"}[nd.Choice(2)]
	}
	return []string{"2015-08-02T12:34:56+0" + d + ":00", "2015-08-0" + d + "T00:00:00-04:00", "2015-08-02T0" + d + ":00:00Z", "2015-08-02 23:59:59-1" + d + ":30"}[nd.Choice(4)]
}

func digit() string {
	d := nd.ASCIIN(1)
	nd.Assume(d[0] >= '1' && d[0] <= '9')
	return d
}

// expected outcome of casting a value of type s with method m:
// 0 ok (result type given), 1 suppressible "format not recognized",
// 2 needs WithTZ (non-suppressible without it).
func castRule(s, m int) (int, int) {
	if m == 0 {
		return 0, s
	}
	t := m - 1
	if s == t {
		return 0, t
	}
	switch t {
	case tDate:
		switch s {
		case tTime, tTimeTZ:
			return 1, 0
		case tTimestamp:
			return 0, t
		case tTimestampTZ:
			return 2, t
		}
	case tTime:
		switch s {
		case tDate:
			return 1, 0
		case tTimeTZ, tTimestampTZ:
			return 2, t
		case tTimestamp:
			return 0, t
		}
	case tTimeTZ:
		switch s {
		case tDate, tTimestamp:
			return 1, 0
		case tTime:
			return 2, t
		case tTimestampTZ:
			return 0, t
		}
	case tTimestamp:
		switch s {
		case tDate:
			return 0, t
		case tTime, tTimeTZ:
			return 1, 0
		case tTimestampTZ:
			return 2, t
		}
	case tTimestampTZ:
		switch s {
		case tDate, tTimestamp:
			return 2, t
		case tTime, tTimeTZ:
			return 1, 0
		}
	}
	return 1, 0
}

func tzContext() context.Context {
	switch nd.Choice(3) {
	case 0:
		return context.Background()
	case 1:
		if nd.Thorough() {
			return types.ContextWithTZ(context.Background(), time.FixedZone("", sampleOffset()))
		}
		// quick tier: a symbolic offset among -12:00, -04:00, +05:30, +14:00
		q := int(nd.Byte())
		nd.Assume(q < 4)
		return types.ContextWithTZ(context.Background(), time.FixedZone("", []int{-43200, -14400, 19800, 50400}[q]))
	}
	loc, err := time.LoadLocation("America/New_York")
	if err != nil {
		return context.Background()
	}
	return types.ContextWithTZ(context.Background(), loc)
}

// C17_Casts: the 5 x 6 cast matrix, with and without WithTZ, in every
// context zone: which casts succeed (and to which type), which are "format
// not recognized", which need WithTZ and fail non-suppressibly without it.
func C17_Casts() {
	s := nd.Choice(5)
	m := nd.Choice(6)
	src := dtString(s, digit())
	useTZ := nd.Choice(2) == 1
	ctx := tzContext()
	var opts []exec.Option
	if useTZ {
		opts = append(opts, exec.WithTZ())
	}
	p := parse("$." + castMethods[m] + "().type()")
	r, err := p.Query(ctx, src, opts...)
	rule, want := castRule(s, m)
	tag := "C17/cast/" + typeNames[s] + "." + castMethods[m]
	nd.Cover(tag)
	switch {
	case rule == 1:
		nd.Assert(err != nil && isVerbose(err), tag+"/incompatible-cast-must-be-suppressible-error")
	case rule == 2 && !useTZ:
		nd.Assert(err != nil && hardErr(err), tag+"/cast-without-WithTZ-must-be-non-suppressible-error")
	default:
		nd.Assert(err == nil && len(r) == 1, tag+"/cast-fails")
		if err == nil && len(r) == 1 {
			name, ok := r[0].(string)
			nd.Assert(ok && name == typeNames[want], tag+"/result-type")
		}
	}
}

// comparability: 0 comparable, 1 unknown (times vs dates/timestamps),
// 2 needs WithTZ.
func cmpRule(a, b int) int {
	isT := func(k int) bool { return k == tTime || k == tTimeTZ }
	if isT(a) != isT(b) {
		return 1
	}
	aware := func(k int) bool { return k == tTimeTZ || k == tTimestampTZ }
	if aware(a) != aware(b) {
		return 2
	}
	return 0
}

// common cast for the cast/compare coherence check
func commonCast(a, b int) string {
	isT := func(k int) bool { return k == tTime || k == tTimeTZ }
	if isT(a) {
		if a == tTimeTZ || b == tTimeTZ {
			return "time_tz"
		}
		return "time"
	}
	if a == tTimestampTZ || b == tTimestampTZ {
		return "timestamp_tz"
	}
	if a == tTimestamp || b == tTimestamp {
		return "timestamp"
	}
	return "date"
}

func cmpOutcome(ctx context.Context, src string, a, b string, opts []exec.Option) int {
	o := append([]exec.Option{exec.WithVars(exec.Vars{"a": a, "b": b})}, opts...)
	r, err := parse(src).Query(ctx, nil, o...)
	if err != nil {
		if hardErr(err) {
			return oH
		}
		return oBad
	}
	if len(r) != 1 {
		return oBad
	}
	switch v := r[0].(type) {
	case nil:
		return oU
	case bool:
		return b2o(v)
	}
	return oBad
}

// C17_Compare: the 5 x 5 comparison matrix in every context zone:
// incomparable kinds are unknown; zone-less vs zone-aware needs WithTZ;
// a op b is the dual of b op' a; and with WithTZ a comparison gives the same
// answer as comparing after explicit casts to the common type.
func C17_Compare() {
	ka, kb := nd.Choice(5), nd.Choice(5)
	a, b := dtString(ka, digit()), dtString(kb, "2")
	opi := nd.Choice(6)
	if !nd.Thorough() {
		// quick tier: ==, < and >= (the others are their duals / negations)
		opi = []int{0, 2, 5}[nd.Choice(3)]
	}
	useTZ := nd.Choice(2) == 1
	ctx := tzContext()
	var opts []exec.Option
	if useTZ {
		opts = append(opts, exec.WithTZ())
	}
	op := cmpOps[opi]
	got := cmpOutcome(ctx, "$a.datetime() "+op+" $b.datetime()", a, b, opts)
	tag := "C17/compare/" + typeNames[ka] + " vs " + typeNames[kb]
	nd.Cover(tag)
	switch cmpRule(ka, kb) {
	case 1:
		nd.Assert(got == oU, tag+"/incomparable-kinds-must-be-unknown")
		return
	case 2:
		if !useTZ {
			nd.Assert(got == oH, tag+"/comparison-without-WithTZ-must-be-non-suppressible-error")
			return
		}
	}
	nd.Assert(got == oT || got == oF, tag+"/comparable-pair-not-decided")
	// duality
	dual := []int{0, 1, 4, 5, 2, 3}
	rev := cmpOutcome(ctx, "$b.datetime() "+cmpOps[dual[opi]]+" $a.datetime()", a, b, opts)
	nd.Assert(rev == got, tag+"/duality")
	// coherence with explicit casts (needs WithTZ when kinds differ in zone awareness)
	if useTZ {
		c := commonCast(ka, kb)
		viaCast := cmpOutcome(ctx, "$a."+c+"() "+op+" $b."+c+"()", a, b, opts)
		nd.Assert(viaCast == got, tag+"/differs-from-comparison-after-casts")
	}
}

// C17_Transitive: < and == are transitive over triples of one family.
func C17_Transitive() {
	fam := [][]int{{tDate, tTimestamp, tTimestampTZ}, {tTime, tTimeTZ}}[nd.Choice(2)]
	ka, kb, kc := fam[nd.Choice(len(fam))], fam[nd.Choice(len(fam))], fam[nd.Choice(len(fam))]
	a, b, c := dtString(ka, digit()), dtString(kb, "2"), dtString(kc, "3")
	ctx := tzContext()
	opts := []exec.Option{exec.WithTZ(), exec.WithVars(exec.Vars{"a": a, "b": b, "c": c})}
	is := func(src string) bool {
		r, err := parse(src).Query(ctx, nil, opts...)
		if err != nil || len(r) != 1 {
			return false
		}
		v, ok := r[0].(bool)
		return ok && v
	}
	if is("$a.datetime() < $b.datetime()") && is("$b.datetime() < $c.datetime()") {
		nd.Assert(is("$a.datetime() < $c.datetime()"), "C17/lt-transitive")
	}
	if is("$a.datetime() == $b.datetime()") && is("$b.datetime() == $c.datetime()") {
		nd.Assert(is("$a.datetime() == $c.datetime()"), "C17/eq-transitive")
	}
}

// C17_Precision: .time(p) etc. round fractional seconds to p digits (capped
// at 6) and leave the rest alone.
func C17_Precision() {
	f := nd.ASCIIN(2)
	nd.Assume(isDigits(f, 10))
	frac := []string{f, f + "5", "9999" + f + "5", f + "4999999", "99999" + f}[nd.Choice(5)]
	m := nd.Choice(4)
	method := []string{"time", "time_tz", "timestamp", "timestamp_tz"}[m]
	src := []string{"12:34:59." + frac, "23:59:59." + frac + "+01:00", "2015-12-31T23:59:59." + frac, "2015-12-31T23:59:59." + frac + "-05:30"}[m]
	layout := []string{"15:04:05.999999999", "15:04:05.999999999Z07:00", "2006-01-02T15:04:05.999999999", "2006-01-02T15:04:05.999999999Z07:00"}[m]
	p := nd.Choice(9)
	r, err := parse("$."+method+"("+itoa(p)+").string()").Query(context.Background(), src)
	tag := "C17/precision/" + method
	nd.Assert(err == nil && len(r) == 1, tag+"/error")
	if err != nil || len(r) != 1 {
		return
	}
	got, _ := r[0].(string)
	ref, perr := time.Parse(layout, src)
	if perr != nil {
		return
	}
	q := p
	if q > 6 {
		q = 6
	}
	unit := time.Second
	for i := 0; i < q; i++ {
		unit /= 10
	}
	want := ref.Round(unit)
	back, berr := time.Parse(layout, got)
	nd.Assert(berr == nil, tag+"/output-does-not-parse")
	if berr == nil {
		if m < 2 {
			// times of day: a carry past midnight wraps around
			same := back.Hour() == want.Hour() && back.Minute() == want.Minute() && back.Second() == want.Second() && back.Nanosecond() == want.Nanosecond()
			nd.Assert(same, tag+"/rounding")
		} else {
			nd.Assert(back.Equal(want), tag+"/rounding")
		}
	}
}

var _ = reg("C17_CastValues", C17_CastValues)

// tzContextLoc: as tzContext, also returning the zone itself for the oracle.
func tzContextLoc() (context.Context, *time.Location) {
	switch nd.Choice(3) {
	case 0:
		return context.Background(), time.UTC
	case 1:
		offs := []int{-43200, -14400, 19800, 50400}
		if nd.Thorough() {
			offs = []int{-43200, -34200, -14400, -3600, 3600, 19800, 20700, 36000, 45900, 50400}
		}
		q := int(nd.Byte())
		nd.Assume(q < len(offs))
		loc := time.FixedZone("", offs[q])
		return types.ContextWithTZ(context.Background(), loc), loc
	}
	loc, err := time.LoadLocation("America/New_York")
	if err != nil {
		return context.Background(), time.UTC
	}
	return types.ContextWithTZ(context.Background(), loc), loc
}

// C17_CastValues: the value of every cast that involves the context zone,
// against the time package used directly: a timestamptz cast to date / time /
// timestamp is the calendar day / time of day / local date-time of its
// instant in the context zone; a date or timestamp cast to timestamptz is
// that local date-time interpreted in the context zone. Compared with == on
// values of the target type built from independently formatted text.
func C17_CastValues() {
	ctx, loc := tzContextLoc()
	castValues(ctx, loc, "C17/cast-value", digit)
}

// castValues: see C17_CastValues; tag prefixes the assertion labels, digit
// supplies the varying digit of the datetime strings.
func castValues(ctx context.Context, loc *time.Location, tag string, digit func() string) {
	opts := []exec.Option{exec.WithTZ()}
	eq := func(method, a, e string) int {
		return cmpOutcome(ctx, "$a."+method+"() == $b."+method+"()", a, e, opts)
	}
	switch nd.Choice(3) {
	case 0:
		// timestamptz -> date / time / timestamp
		src := dtString(tTimestampTZ, digit())
		layout := "2006-01-02T15:04:05Z07:00"
		if src[10] == ' ' {
			layout = "2006-01-02 15:04:05Z07:00"
		}
		t, err := time.Parse(layout, src)
		if err != nil {
			// an offset such as -19:30: not a timestamptz for either side
			nd.Cover(tag + "/ill-formed-offset")
			nd.Assert(eq("timestamp_tz", src, src) != oT, tag+"/ill-formed-offset-accepted")
			return
		}
		nd.Cover(tag + "/timestamptz-checked")
		l := t.In(loc)
		nd.Assert(eq("date", src, l.Format("2006-01-02")) == oT, tag+"/timestamptz.date/not-the-day-in-the-context-zone")
		nd.Assert(eq("time", src, l.Format("15:04:05")) == oT, tag+"/timestamptz.time/not-the-time-of-day-in-the-context-zone")
		nd.Assert(eq("timestamp", src, l.Format("2006-01-02T15:04:05")) == oT, tag+"/timestamptz.timestamp/not-the-local-date-time-in-the-context-zone")
	case 1:
		// date -> timestamptz: midnight of that day in the context zone
		src := dtString(tDate, digit())
		d, err := time.ParseInLocation("2006-01-02", src, loc)
		nd.Assert(err == nil, tag+"/oracle-cannot-parse-its-own-date")
		if err != nil {
			return
		}
		nd.Assert(eq("timestamp_tz", src, d.Format("2006-01-02T15:04:05Z07:00")) == oT, tag+"/date.timestamp_tz/not-midnight-in-the-context-zone")
		nd.Assert(eq("timestamp", src, d.Format("2006-01-02T15:04:05")) == oT, tag+"/date.timestamp/not-midnight")
	case 2:
		// timestamp -> timestamptz / date / time
		src := dtString(tTimestamp, digit())
		layout := "2006-01-02T15:04:05"
		if src[10] == ' ' {
			layout = "2006-01-02 15:04:05"
		}
		t, err := time.ParseInLocation(layout, src, loc)
		nd.Assert(err == nil, tag+"/oracle-cannot-parse-its-own-timestamp")
		if err != nil {
			return
		}
		nd.Assert(eq("timestamp_tz", src, t.Format("2006-01-02T15:04:05Z07:00")) == oT, tag+"/timestamp.timestamp_tz/not-the-local-time-in-the-context-zone")
		nd.Assert(eq("date", src, t.Format("2006-01-02")) == oT, tag+"/timestamp.date/not-the-date-part")
		nd.Assert(eq("time", src, t.Format("15:04:05")) == oT, tag+"/timestamp.time/not-the-time-part")
	}
}

var _ = reg("C17_Sequences", C17_Sequences)
var _ = reg("C17_Transitions", C17_Transitions)

// C17_Sequences: a lax comparison over a sequence of datetime items is the
// left-to-right fold of the comparisons of its items: true at the first item
// that satisfies it (nothing after that item is looked at, so a later pair
// that would need WithTZ does not fail the predicate), a non-suppressible
// error at the first pair that raises one, otherwise unknown if some pair
// was, else false. Related to the executions on the single items.
func C17_Sequences() {
	n := 3
	pool := []string{"2015-08-02", "12:34:56", "12:34:56+02:00", "2015-08-02T12:34:56", "2015-08-02T12:34:56+02:00", "2015-08-01T23:00:00-04:00"}
	items := make([]any, n)
	for i := range items {
		items[i] = pool[nd.Choice(len(pool))]
	}
	lit := []string{"2015-08-02", "2015-08-02T12:34:56+02:00", "12:34:56"}[nd.Choice(3)]
	op := []string{"<", ">="}[nd.Choice(2)]
	ctx := bg
	if nd.Choice(2) == 1 {
		if loc, err := time.LoadLocation("America/New_York"); err == nil {
			ctx = types.ContextWithTZ(bg, loc)
		}
	}
	var opts []exec.Option
	if nd.Choice(2) == 1 {
		opts = append(opts, exec.WithTZ())
	}
	cond := ".datetime() " + op + " \"" + lit + "\".datetime()"
	one := func(doc any, src string) int {
		r, err := parse(src).Query(ctx, doc, opts...)
		if err != nil {
			if hardErr(err) {
				return oH
			}
			return oBad
		}
		if len(r) != 1 {
			return oBad
		}
		switch v := r[0].(type) {
		case nil:
			return oU
		case bool:
			return b2o(v)
		}
		return oBad
	}
	got := one(items, "$[*]"+cond)
	want, sawU := oF, false
	for _, it := range items {
		r := one(it, "$"+cond)
		if r == oT || r == oH {
			want = r
			break
		}
		if r == oU {
			sawU = true
		}
	}
	if want == oF && sawU {
		want = oU
	}
	nd.Assert(got == want, "C17/sequence/lax-comparison-is-not-the-fold-of-its-items "+op)
}

// C17_Transitions: date -> timestamptz on and around the days a named zone
// changes its offset (zones east and west of UTC, both hemispheres): midnight
// of that day in the zone, and back to the same date.
func C17_Transitions() {
	zones := []string{"Australia/Sydney", "Pacific/Auckland", "America/New_York", "Europe/London", "Australia/Adelaide", "America/Sao_Paulo"}
	days := []string{"2024-04-06", "2024-04-07", "2024-04-08", "2024-10-05", "2024-10-06", "2024-10-07", "2024-09-28", "2024-09-29", "2024-03-10", "2024-03-31", "2024-11-03", "2024-10-27", "2018-11-04", "2018-02-18"}
	loc, err := time.LoadLocation(zones[nd.Choice(len(zones))])
	if err != nil {
		nd.Cover("C17/transitions/zone-not-available")
		return
	}
	day := days[nd.Choice(len(days))]
	ctx := types.ContextWithTZ(bg, loc)
	opts := []exec.Option{exec.WithTZ()}
	d, perr := time.ParseInLocation("2006-01-02", day, loc)
	nd.Assert(perr == nil, "C17/transitions/oracle-cannot-parse-its-own-date")
	if perr != nil {
		return
	}
	if d.Format("2006-01-02") != day {
		// midnight does not exist in the zone on that day (the clocks jump
		// over it): the property speaks of local times that exist
		nd.Cover("C17/transitions/midnight-does-not-exist")
		return
	}
	want := d.Format("2006-01-02T15:04:05Z07:00")
	nd.Assert(cmpOutcome(ctx, "$a.timestamp_tz() == $b.timestamp_tz()", day, want, opts) == oT, "C17/transitions/date.timestamp_tz/not-midnight-in-the-context-zone")
	nd.Assert(cmpOutcome(ctx, "$a.timestamp_tz().string().date() == $b.date()", day, day, opts) == oT, "C17/transitions/date.timestamp_tz.date/not-the-same-date")
	nd.Assert(cmpOutcome(ctx, "$a.date() == $b.timestamp_tz()", day, want, opts) == oT, "C17/transitions/date-compared-with-its-own-midnight")
	// timestamp -> timestamptz at noon of that day
	noon := day + "T12:00:00"
	tn, _ := time.ParseInLocation("2006-01-02T15:04:05", noon, loc)
	nd.Assert(cmpOutcome(ctx, "$a.timestamp_tz() == $b.timestamp_tz()", noon, tn.Format("2006-01-02T15:04:05Z07:00"), opts) == oT, "C17/transitions/timestamp.timestamp_tz/not-the-local-time-in-the-context-zone")
}
