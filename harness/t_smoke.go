//go:build verif

package harness

import (
	"context"

	"github.com/theory/sqljson/path"
	"github.com/theory/sqljson/path/exec"
	"harness/nd"
)

var _ = reg("T00_Smoke1", T00_Smoke1)
var _ = reg("T00_Smoke2", T00_Smoke2)

// Smoke1: fully concrete run through Parse + Query.
func T00_Smoke1() {
	p := path.MustParse("$.a + 1")
	r, err := p.Query(context.Background(), map[string]any{"a": float64(2)})
	nd.Assert(err == nil, "smoke1/err")
	nd.Assert(len(r) == 1, "smoke1/len")
	f, ok := r[0].(float64)
	nd.Assert(ok, "smoke1/type")
	nd.Assert(f == 3, "smoke1/val")
}

// Smoke2: symbolic int64 addition must not wrap.
func T00_Smoke2() {
	p := path.MustParse("$a + $b")
	a, b := nd.Int64(), nd.Int64()
	r, err := p.Query(context.Background(), nil, exec.WithVars(exec.Vars{"a": a, "b": b}))
	if err != nil {
		return
	}
	nd.Assert(len(r) == 1, "smoke2/len")
	switch v := r[0].(type) {
	case int64:
		nd.Assert(!nd.AddOverflows(a, b), "smoke2/wrapped")
		nd.Assert(v == a+b, "smoke2/sum")
	}
}
