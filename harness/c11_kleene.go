//go:build verif

package harness

import (
	"github.com/theory/sqljson/path/exec"
	"harness/nd"
)

var _ = reg("C11_Binary", C11_Binary)
var _ = reg("C11_Unary", C11_Unary)
var _ = reg("C11_Exists", C11_Exists)
var _ = reg("C11_Laws", C11_Laws)

// three-valued outcomes of a predicate, plus the non-suppressible error
const (
	oF = iota
	oT
	oU
	oH // hard (non-suppressible) error
	oBad
)

var oName = []string{"false", "true", "unknown", "hard-error", "malformed"}

// evalPred runs src as a predicate check expression and classifies the outcome.
func evalPred(src string, vars exec.Vars) int {
	r, err := parse(src).Query(bg, nil, exec.WithVars(vars))
	if err != nil {
		if hardErr(err) {
			return oH
		}
		return oBad
	}
	if len(r) != 1 {
		return oBad
	}
	switch v := r[0].(type) {
	case nil:
		return oU
	case bool:
		if v {
			return oT
		}
		return oF
	}
	return oBad
}

// operand sources: $p == 1 is true / false / unknown depending on the kind
// and value of $p; $missing == 1 raises the non-suppressible error.
var opSpec = nd.Spec{Kinds: nd.KNull | nd.KBool | nd.KFloat | nd.KString, StrLen: 1}

func operand(name string) (src string, vars func(exec.Vars)) {
	if nd.Choice(4) == 3 {
		return "($missing" + name + " == 1)", func(exec.Vars) {}
	}
	v := nd.JSON(opSpec)
	return "($" + name + " == 1)", func(m exec.Vars) { m[name] = v }
}

func kAnd(a, b int) int {
	switch {
	case a == oF || b == oF:
		return oF
	case a == oT && b == oT:
		return oT
	}
	return oU
}

func kOr(a, b int) int {
	switch {
	case a == oT || b == oT:
		return oT
	case a == oF && b == oF:
		return oF
	}
	return oU
}

func kNot(a int) int {
	switch a {
	case oT:
		return oF
	case oF:
		return oT
	}
	return oU
}

func modePrefix() string {
	if nd.Choice(2) == 1 {
		return "strict "
	}
	return ""
}

// C11_Binary: complete truth tables of && and ||, at top level and inside a
// filter, both modes, including the non-suppressible error.
func C11_Binary() {
	mode := modePrefix()
	ps, pv := operand("p")
	qs, qv := operand("q")
	vars := exec.Vars{}
	pv(vars)
	qv(vars)
	or := nd.Choice(2) == 1
	conn := " && "
	if or {
		conn = " || "
	}
	p, q := evalPred(mode+ps, vars), evalPred(mode+qs, vars)
	if p == oBad || q == oBad {
		nd.Assert(false, "C11/operand-malformed")
		return
	}
	got := evalPred(mode+ps+conn+qs, vars)
	tag := "C11/" + conn[1:3] + "/" + oName[p] + "," + oName[q]
	nd.Cover(tag)
	var want int
	if or {
		want = kOr(p, q)
	} else {
		want = kAnd(p, q)
	}
	switch {
	case p == oH:
		nd.Assert(got == oH, tag+"/hard-error-must-propagate")
	case q == oH:
		// either propagates, or the left operand already decided
		decided := (or && p == oT) || (!or && p == oF)
		if decided {
			nd.Assert(got == oH || got == want, tag+"/hard-error-or-short-circuit")
		} else {
			nd.Assert(got == oH, tag+"/hard-error-must-propagate")
		}
	default:
		nd.Assert(got == want, tag+"/value")
		// commutative in value
		rev := evalPred(mode+qs+conn+ps, vars)
		nd.Assert(rev == got, tag+"/commutes")
	}
	// the same condition inside a filter keeps the item exactly when true
	r, err := parse(mode+"$ ? ("+ps+conn+qs+")").Query(bg, float64(7), exec.WithVars(vars))
	switch got {
	case oT:
		nd.Assert(err == nil && len(r) == 1, tag+"/filter-keeps-on-true")
	case oF, oU:
		nd.Assert(err == nil && len(r) == 0, tag+"/filter-drops-on-false-or-unknown")
	case oH:
		nd.Assert(err != nil && hardErr(err), tag+"/filter-hard-error-must-propagate")
	}
	// Match outcome corresponds
	m, merr := parse(mode+ps+conn+qs).Match(bg, nil, exec.WithVars(vars))
	switch got {
	case oT:
		nd.Assert(m && merr == nil, tag+"/match-true")
	case oF:
		nd.Assert(!m && merr == nil, tag+"/match-false")
	case oU:
		nd.Assert(!m && merr == exec.NULL, tag+"/match-null")
	case oH:
		nd.Assert(merr != nil && hardErr(merr), tag+"/match-hard-error")
	}
}

// C11_Unary: ! and is unknown.
func C11_Unary() {
	mode := modePrefix()
	ps, pv := operand("p")
	vars := exec.Vars{}
	pv(vars)
	p := evalPred(mode+ps, vars)
	if p == oBad {
		nd.Assert(false, "C11/operand-malformed")
		return
	}
	tag := "C11/unary/" + oName[p]
	nd.Cover(tag)
	n := evalPred(mode+"!"+ps, vars)
	u := evalPred(mode+ps+" is unknown", vars)
	nn := evalPred(mode+"!(!"+ps+")", vars)
	if p == oH {
		nd.Assert(n == oH, tag+"/not/hard-error-must-propagate")
		nd.Assert(u == oH, tag+"/is-unknown/hard-error-must-propagate")
		return
	}
	nd.Assert(n == kNot(p), tag+"/not")
	nd.Assert(nn == p, tag+"/double-negation")
	if p == oU {
		nd.Assert(u == oT, tag+"/is-unknown")
	} else {
		nd.Assert(u == oF, tag+"/is-unknown")
	}
	// nested in a filter
	r, err := parse(mode+"$ ? ("+ps+" is unknown)").Query(bg, float64(7), exec.WithVars(vars))
	nd.Assert(err == nil && (len(r) == 1) == (p == oU), tag+"/is-unknown-in-filter")
}

var exSpec = nd.Spec{Kinds: nd.KNull | nd.KFloat | nd.KArray | nd.KObject, Depth: 1, Width: 2, Keys: []string{"a"}}

// C11_Exists: exists(e) is true/false by emptiness of e, unknown only when
// e fails, and the non-suppressible error propagates.
func C11_Exists() {
	mode := modePrefix()
	which := nd.Choice(3 + len(laterPaths))
	var e string
	var doc any
	switch which {
	case 0:
		e = "$.a"
	case 1:
		e = "$[*]"
	case 2:
		e = "$missing"
	default:
		// operands whose emptiness is decided by a later item of an
		// iteration: two-entry documents
		e = laterPaths[which-3]
		es := nd.Spec{Kinds: nd.KFloat | nd.KArray | nd.KObject, Depth: 1, Width: 1, Keys: []string{"a", "b"}}
		if nd.Choice(2) == 0 {
			doc = []any{nd.JSON(es), nd.JSON(es)}
		} else {
			doc = map[string]any{"a": nd.JSON(es), "b": nd.JSON(es)}
		}
	}
	if which < 3 {
		doc = nd.JSON(exSpec)
	}
	items, err := parse(mode + e).Query(bg, doc)
	got := func() int {
		r, qerr := parse(mode+"exists("+e+")").Query(bg, doc)
		if qerr != nil {
			if hardErr(qerr) {
				return oH
			}
			return oBad
		}
		if len(r) != 1 {
			return oBad
		}
		switch v := r[0].(type) {
		case nil:
			return oU
		case bool:
			if v {
				return oT
			}
			return oF
		}
		return oBad
	}()
	tag := "C11/exists/" + e
	switch {
	case err != nil && hardErr(err):
		nd.Assert(got == oH, tag+"/hard-error-must-propagate")
	case err != nil:
		// lax mode answers at the first item: true is established if an item
		// precedes the failure (the silent run returns exactly those items)
		if mode == "" {
			partial, perr := parse(e).Query(bg, doc, exec.WithSilent())
			if perr == nil && len(partial) > 0 {
				nd.Assert(got == oT, tag+"/lax-true-when-an-item-precedes-the-failure")
				break
			}
		}
		nd.Assert(got == oU, tag+"/unknown-when-operand-fails")
	case len(items) == 0:
		nd.Assert(got == oF, tag+"/false-when-empty")
	default:
		nd.Assert(got == oT, tag+"/true-when-non-empty")
	}
	nd.Cover(tag + "/" + oName[got])
}

// C11_Laws: De Morgan over all operand outcomes.
func C11_Laws() {
	mode := modePrefix()
	ps, pv := operand("p")
	qs, qv := operand("q")
	vars := exec.Vars{}
	pv(vars)
	qv(vars)
	a := evalPred(mode+"!("+ps+" && "+qs+")", vars)
	b := evalPred(mode+"!"+ps+" || !"+qs, vars)
	c := evalPred(mode+"!("+ps+" || "+qs+")", vars)
	d := evalPred(mode+"!"+ps+" && !"+qs, vars)
	if a == oH || b == oH || c == oH || d == oH {
		return
	}
	nd.Assert(a == b, "C11/de-morgan/and")
	nd.Assert(c == d, "C11/de-morgan/or")
}

var _ = reg("C11_Operands", C11_Operands)

// operand expressions over @ of several kinds: comparisons, string
// predicates, exists of a nested filter, nested connectives three levels
// deep, and `is unknown` around an operand that fails non-suppressibly inside
// a nested filter (the one way evaluation continues after such an error)
var richOperands = []string{
	"@.a == 1", "@.b > 0", "@.s starts with \"a\"", "@.s like_regex \"^a\"", "exists(@.a ? (@ > 0))",
	"(@.a == 1 && (@.b > 0 || !(@.a == 2)))", "(@.a > @.b) is unknown", "(exists(@.arr ? (@ > $missing))) is unknown",
	"((@.arr ? (@ == $missing)) == 1) is unknown", "exists(@.arr[*] ? (@ > 1))", "@.arr[*] > 1", "!(exists(@.b))",
}

// C11_Operands: && and || are commutative in value, double negation and De
// Morgan hold, for every pair of operand expressions of the kinds above,
// evaluated in a filter over @ (object and array-element items), both modes.
func C11_Operands() {
	mode := modePrefix()
	x := richOperands[nd.Choice(len(richOperands))]
	ys := richOperands
	if !nd.Thorough() {
		ys = []string{"@.a == 1", "@.b > 0", "(@.a > @.b) is unknown", "(exists(@.arr ? (@ > $missing))) is unknown"}
	}
	y := ys[nd.Choice(len(ys))]
	leaf := nd.Spec{Kinds: nd.KFloat}
	item := map[string]any{
		"a": nd.JSON(nd.Spec{Kinds: nd.KFloat | nd.KString, StrLen: 1, ASCII: true}),
		"b": nd.JSON(leaf),
	}
	if nd.Choice(2) == 1 {
		item["s"] = nd.JSON(nd.Spec{Kinds: nd.KString | nd.KFloat, StrLen: 1, ASCII: true})
	}
	if nd.Choice(2) == 1 {
		item["arr"] = []any{nd.JSON(leaf), nd.JSON(leaf)}
	}
	var doc any = item
	pre := "$"
	if nd.Choice(2) == 1 {
		doc, pre = []any{item}, "$[*]"
	}
	sel := func(cond string) int {
		r, err := parse(mode+pre+" ? ("+cond+")").Query(bg, doc)
		if err != nil {
			if hardErr(err) {
				return oH
			}
			return oBad
		}
		if len(r) == 1 {
			return oT
		}
		if len(r) == 0 {
			return oF // false or unknown: the filter drops both
		}
		return oBad
	}
	tag := "C11/operands"
	xy, yx := sel("("+x+") && ("+y+")"), sel("("+y+") && ("+x+")")
	if xy != oH && yx != oH {
		nd.Assert(xy == yx, tag+"/and-not-commutative")
	}
	xo, ox := sel("("+x+") || ("+y+")"), sel("("+y+") || ("+x+")")
	if xo != oH && ox != oH {
		nd.Assert(xo == ox, tag+"/or-not-commutative")
	}
	if n := sel("!(!(" + x + "))"); n != oH {
		if p := sel(x); p != oH {
			nd.Assert(n == p, tag+"/double-negation")
		}
	}
	// De Morgan in the selected / not selected form: !(x && y) selects
	// exactly when !x || !y does
	if a, b := sel("!(("+x+") && ("+y+"))"), sel("!("+x+") || !("+y+")"); a != oH && b != oH {
		nd.Assert(a == b, tag+"/de-morgan-and")
	}
	if a, b := sel("!(("+x+") || ("+y+"))"), sel("!("+x+") && !("+y+")"); a != oH && b != oH {
		nd.Assert(a == b, tag+"/de-morgan-or")
	}
}
