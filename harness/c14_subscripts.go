//go:build verif

package harness

import (
	"github.com/theory/sqljson/path/exec"
	"harness/nd"
)

var _ = reg("C14_Subscripts", C14_Subscripts)
var _ = reg("C14_Nested", C14_Nested)

var subForms = []string{
	"$[$i]",
	"$[$i to $j]",
	"$[$i, $j]",
	"$[last]",
	"$[$i to last]",
	"$[last - 1 to $j]",
	"$[0, $i to $j]",
}

// checkAgainstRef compares Query with the reference evaluator. If nullLabel
// is set and the result is exactly what the reference gives when subscripts
// skip JSON null elements (the listed known finding), that label is used.
func checkAgainstRef(tag, src string, doc any, vars exec.Vars, nullLabel string) {
	p := parse(src)
	got, gerr := p.Query(bg, doc, exec.WithVars(vars))
	want, werr, open, perm := refQuery(p.AST, doc, vars)
	if open {
		nd.Cover(tag + "/open")
		return
	}
	nd.Cover(tag)
	ge := errClass(gerr)
	ok := ge == werr && (werr != eNone || sameSeq(got, want, perm))
	if !ok && nullLabel != "" {
		w2, e2, open2, perm2 := refQueryOpt(p.AST, doc, vars, true)
		if open2 {
			// under the known finding's model the evaluation reaches a rule
			// the reference leaves open: nothing further can be attributed
			nd.Cover(tag + "/open-under-known-finding")
			return
		}
		if ge == e2 && (e2 != eNone || sameSeq(got, w2, perm2)) {
			nd.Assert(false, nullLabel)
			return
		}
	}
	if ge != werr {
		nd.Assert(false, tag+"/error-class")
		return
	}
	nd.Assert(ok, tag+"/items")
}

func elemSpec() nd.Spec {
	if nd.Thorough() {
		return nd.Spec{Kinds: nd.KNull | nd.KFloat | nd.KArray | nd.KObject, Depth: 1, Width: 1, Keys: []string{"a"}}
	}
	return nd.Spec{Kinds: nd.KNull | nd.KFloat}
}

// boundSpec: representations of a subscript bound.
func boundSpec() nd.Spec {
	if nd.Thorough() {
		return numSpec
	}
	return nd.Spec{Kinds: nd.KFloat | nd.KInt64 | nd.KNumber}
}

// C14_Subscripts: arrays of every length 0..N with lazily shaped elements
// (null included), a scalar document (lax wrapping), and subscript lists whose
// bounds are unconstrained numbers in every representation.
func C14_Subscripts() {
	mode := modePrefix()
	maxN := 3
	if nd.Thorough() {
		maxN = 5
	}
	var doc any
	n := nd.Choice(maxN + 2)
	if n == maxN+1 {
		doc = nd.JSON(nd.Spec{Kinds: nd.KNull | nd.KFloat | nd.KObject, Depth: 1, Width: 1, Keys: []string{"a"}})
	} else {
		arr := make([]any, n)
		for k := range arr {
			arr[k] = nd.JSON(elemSpec())
		}
		doc = arr
	}
	form := subForms[nd.Choice(len(subForms))]
	vars := exec.Vars{"i": nd.JSON(boundSpec()), "j": nd.JSON(boundSpec())}
	checkAgainstRef("C14/"+mode+form, mode+form, doc, vars, "C14/null-element-dropped")
}

// C14_Nested: last is the innermost enclosing array and is restored after
// a nested subscript; a bound that is not exactly one number errs.
func C14_Nested() {
	mode := modePrefix()
	forms := []string{
		"$[$[last]]",
		"$[$[0] to last]",
		"$[last][last]",
		"$[$[*]]",
		"$[$k]",
		"$[$[last], last]",
	}
	form := forms[nd.Choice(len(forms))]
	n := nd.Choice(4)
	arr := make([]any, n)
	for k := range arr {
		arr[k] = nd.JSON(nd.Spec{Kinds: nd.KNull | nd.KFloat | nd.KString | nd.KArray, Depth: 1, Width: 2, StrLen: 1})
	}
	vars := exec.Vars{"k": nd.JSON(nd.Spec{Kinds: nd.KNull | nd.KString | nd.KBool | nd.KArray | nd.KFloat, Depth: 1, Width: 2, StrLen: 1})}
	checkAgainstRef("C14/nested/"+mode+form, mode+form, arr, vars, "C14/null-element-dropped")
}

var _ = reg("C14_Expr", C14_Expr)

// C14_Expr: subscripts that are computed (last-relative arithmetic, sums of
// variables, unary minus, halves that must truncate toward zero), subscripts
// whose bound is itself a subscripted path over another member (last must
// denote the innermost array), subscripts after [*] over rows of different
// lengths, and a subscript inside a filter below a subscript.
func C14_Expr() {
	mode := modePrefix()
	forms := []string{
		"$.a[last - $i]",
		"$.a[$i + $j]",
		"$.a[last - $i to last]",
		"$.a[$i / 2]",
		"$.a[-$i]",
		"$.a[last / 2]",
		"$.a[$.b[last]]",
		"$.a[$.b[last] to last]",
		"$.a[last - $.b[last]]",
		"$.a[0 to $.b.size()]",
		"$.a[*][last]",
		"$.a[*][$i to last]",
		"$.a[last][last]",
		"$.a[$i] ? (@[last] == $.a[last][last])",
		"$.a[last, 0, last - 1]",
		"$.a[$.a[last][last]]",
	}
	form := forms[nd.Choice(len(forms))]
	n := nd.Choice(4)
	a := make([]any, n)
	for k := range a {
		a[k] = nd.JSON(nd.Spec{Kinds: nd.KNull | nd.KFloat | nd.KArray, Depth: 1, Width: 2})
	}
	m := nd.Choice(3)
	b := make([]any, m)
	for k := range b {
		b[k] = nd.JSON(nd.Spec{Kinds: nd.KFloat | nd.KNull})
	}
	doc := map[string]any{"a": a, "b": b}
	vars := exec.Vars{"i": nd.JSON(nd.Spec{Kinds: nd.KFloat | nd.KInt64}), "j": nd.JSON(nd.Spec{Kinds: nd.KFloat | nd.KInt64})}
	checkAgainstRef("C14/expr/"+mode+form, mode+form, doc, vars, "C14/null-element-dropped")
}
