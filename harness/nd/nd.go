// Package nd is the nondeterminism API of the verification harnesses.
//
// Under the symbolic executor (/verif/engine) every function of this package
// is intercepted: inputs become SMT variables, Assume/Assert become solver
// queries. Compiled natively, the same functions read a recorded input vector
// (a counterexample produced by the engine), so that every harness is also an
// ordinary Go program that replays that counterexample against the real code.
package nd

import (
	"encoding/json"
	"fmt"
	"math"
	"os"
	"reflect"
	"sort"
	"strconv"
	"strings"
)

// Spec bounds a lazily-shaped JSON value.
type Spec struct {
	Depth  int      // containers may nest this deep (0: scalars only)
	Width  int      // max array length / object members
	Kinds  int      // bit set of K* kinds
	StrLen int      // max string length in bytes
	Keys   []string // object key alphabet
	ASCII  bool     // strings restricted to bytes 1..127
}

const (
	KNull = 1 << iota
	KBool
	KFloat
	KNumber
	KInt64
	KString
	KArray
	KObject
	KNumOOR

	KScalars = KNull | KBool | KFloat | KNumber | KString
	KJSON    = KScalars | KArray | KObject
	KNumeric = KFloat | KNumber | KInt64
)

// ---- replay state ----

type entry struct {
	K string          `json:"k"`
	V json.RawMessage `json:"v"`
}

type FailureT struct {
	Label string
}

var (
	vec      []entry
	pos      int
	Failures []FailureT
	Covered  = map[string]bool{}
)

// AssumeFailed is panicked when a replayed vector violates an assumption.
type AssumeFailed struct{}

// Load installs a recorded vector for native replay.
func Load(file string) error {
	b, err := os.ReadFile(file)
	if err != nil {
		return err
	}
	var doc struct {
		Tier   string  `json:"tier"`
		Vector []entry `json:"vector"`
	}
	if err := json.Unmarshal(b, &doc); err != nil {
		return err
	}
	vec, pos, Failures = doc.Vector, 0, nil
	thorough = doc.Tier == "thorough"
	return nil
}

var thorough bool

// Thorough reports whether the check runs in the thorough tier (larger bounds).
func Thorough() bool { return thorough }

func next(kind string) json.RawMessage {
	if pos >= len(vec) {
		panic(fmt.Sprintf("nd: input vector exhausted (want %s)", kind))
	}
	e := vec[pos]
	pos++
	if e.K != kind {
		panic(fmt.Sprintf("nd: input %d is %s, harness wants %s", pos-1, e.K, kind))
	}
	return e.V
}

type floatRepr struct {
	Bits string `json:"bits"`
}

func parseFloat(raw json.RawMessage) float64 {
	var fr floatRepr
	must(json.Unmarshal(raw, &fr))
	u, err := strconv.ParseUint(fr.Bits, 16, 64)
	must(err)
	return math.Float64frombits(u)
}

func must(err error) {
	if err != nil {
		panic(err)
	}
}

// Symbolic reports whether the harness runs under the symbolic executor.
func Symbolic() bool { return false }

func Bool() bool {
	var b bool
	must(json.Unmarshal(next("bool"), &b))
	return b
}

func intval(kind string) int64 {
	var s string
	must(json.Unmarshal(next(kind), &s))
	v, err := strconv.ParseInt(s, 10, 64)
	must(err)
	return v
}

func Int64() int64 { return intval("int") }
func Int() int     { return int(intval("int")) }
func Uint32() uint32 {
	var s string
	must(json.Unmarshal(next("uint"), &s))
	v, err := strconv.ParseUint(s, 10, 64)
	must(err)
	return uint32(v)
}
func Byte() byte {
	var s string
	must(json.Unmarshal(next("uint"), &s))
	v, err := strconv.ParseUint(s, 10, 64)
	must(err)
	return byte(v)
}
func Float64() float64       { return parseFloat(next("float")) }
func FiniteFloat64() float64 { return parseFloat(next("float")) }
func IntRange(lo, hi int) int {
	v := int(intval("int"))
	if v < lo || v > hi {
		panic(AssumeFailed{})
	}
	return v
}
func Choice(n int) int {
	var v int
	must(json.Unmarshal(next("choice"), &v))
	return v
}
func str() string {
	var b []byte
	must(json.Unmarshal(next("string"), &b))
	return string(b)
}
func String(maxLen int) string { return str() }
func StringN(n int) string     { return str() }
func ASCII(maxLen int) string  { return str() }
func ASCIIN(n int) string      { return str() }

// Number returns an arbitrary json.Number; modes: 1 integer literal,
// 2 non-integer literal, 4 literal outside float64 range.
func Number(modes int) json.Number {
	var s string
	must(json.Unmarshal(next("number"), &s))
	return json.Number(s)
}

type jnode struct {
	T    string          `json:"t"`
	V    json.RawMessage `json:"v"`
	Keys []string        `json:"keys"`
}

func build(raw json.RawMessage) any {
	var n jnode
	must(json.Unmarshal(raw, &n))
	switch n.T {
	case "null":
		return nil
	case "bool":
		var b bool
		must(json.Unmarshal(n.V, &b))
		return b
	case "float":
		return parseFloat(n.V)
	case "int64":
		var s string
		must(json.Unmarshal(n.V, &s))
		v, err := strconv.ParseInt(s, 10, 64)
		must(err)
		return v
	case "number":
		var s string
		must(json.Unmarshal(n.V, &s))
		return json.Number(s)
	case "string":
		var b []byte
		must(json.Unmarshal(n.V, &b))
		return string(b)
	case "array":
		var es []json.RawMessage
		must(json.Unmarshal(n.V, &es))
		out := make([]any, len(es))
		for i, e := range es {
			out[i] = build(e)
		}
		return out
	case "object":
		var es []json.RawMessage
		must(json.Unmarshal(n.V, &es))
		out := make(map[string]any, len(es))
		for i, e := range es {
			out[n.Keys[i]] = build(e)
		}
		return out
	}
	panic("nd: bad json node " + n.T)
}

// JSON returns an arbitrary JSON value within spec.
func JSON(spec Spec) any { return build(next("json")) }

func Assume(c bool) {
	if !c {
		panic(AssumeFailed{})
	}
}

// Assert states the property; label identifies the assertion (and, for a
// listed known finding, its class).
func Assert(c bool, label string) {
	if !c {
		Failures = append(Failures, FailureT{Label: label})
	}
}

func Cover(label string) { Covered[label] = true }

// All is a non-short-circuit conjunction (no path fork under the engine).
func All(cs ...bool) bool {
	r := true
	for _, c := range cs {
		r = r && c
	}
	return r
}

func Any(cs ...bool) bool {
	r := false
	for _, c := range cs {
		r = r || c
	}
	return r
}

func Implies(a, b bool) bool { return !a || b }

func Ite(c bool, x, y int64) int64 {
	if c {
		return x
	}
	return y
}

// SameObject reports whether two containers are the same heap object.
func SameObject(a, b any) bool {
	switch x := a.(type) {
	case []any:
		y, ok := b.([]any)
		if !ok || len(x) != len(y) {
			return false
		}
		if len(x) == 0 {
			return (x == nil) == (y == nil)
		}
		return &x[0] == &y[0]
	case map[string]any:
		y, ok := b.(map[string]any)
		if !ok {
			return false
		}
		return fmt.Sprintf("%p", x) == fmt.Sprintf("%p", y)
	}
	return false
}

// Freeze marks everything reachable from roots (and all package-level
// state) read-only until Thaw. Under the engine every store into that memory
// is detected; natively a deep dump of the roots (unexported fields included)
// is taken and compared at Thaw, which confirms value-changing writes.
func Freeze(roots ...any) {
	frozenRoots = roots
	frozenDump = dumpAll(roots)
}

// Thaw ends the frozen region and returns a description of the first write
// into frozen memory ("" if none).
func Thaw() string {
	if dumpAll(frozenRoots) != frozenDump {
		return "frozen object changed"
	}
	return ""
}

var (
	frozenRoots []any
	frozenDump  string
)

func dumpAll(roots []any) string {
	var sb strings.Builder
	seen := map[uintptr]bool{}
	for _, r := range roots {
		dump(&sb, reflect.ValueOf(r), seen, 0)
		sb.WriteByte(';')
	}
	return sb.String()
}

func dump(sb *strings.Builder, v reflect.Value, seen map[uintptr]bool, depth int) {
	if !v.IsValid() {
		sb.WriteString("nil")
		return
	}
	if depth > 40 {
		sb.WriteString("…")
		return
	}
	switch v.Kind() {
	case reflect.Ptr:
		if v.IsNil() {
			sb.WriteString("nil")
			return
		}
		p := v.Pointer()
		if seen[p] {
			sb.WriteString("^")
			return
		}
		seen[p] = true
		// follow pointers into the code under test only; foreign objects
		// (compiled regexps, locations) are identified by presence
		if pk := v.Type().Elem().PkgPath(); pk != "" && !strings.HasPrefix(pk, "github.com/theory/sqljson") {
			sb.WriteString("&" + v.Type().Elem().String())
			return
		}
		sb.WriteString("&")
		dump(sb, v.Elem(), seen, depth+1)
	case reflect.Interface:
		if v.IsNil() {
			sb.WriteString("nil")
			return
		}
		sb.WriteString(v.Elem().Type().String() + ":")
		dump(sb, v.Elem(), seen, depth+1)
	case reflect.Struct:
		sb.WriteString("{")
		for i := 0; i < v.NumField(); i++ {
			dump(sb, v.Field(i), seen, depth+1)
			sb.WriteByte(',')
		}
		sb.WriteString("}")
	case reflect.Slice, reflect.Array:
		if v.Kind() == reflect.Slice && v.IsNil() {
			sb.WriteString("nil[]")
			return
		}
		sb.WriteString("[")
		for i := 0; i < v.Len(); i++ {
			dump(sb, v.Index(i), seen, depth+1)
			sb.WriteByte(',')
		}
		sb.WriteString("]")
	case reflect.Map:
		if v.IsNil() {
			sb.WriteString("nilmap")
			return
		}
		keys := v.MapKeys()
		ks := make([]string, len(keys))
		byKey := map[string]reflect.Value{}
		for i, k := range keys {
			ks[i] = fmt.Sprint(k)
			byKey[ks[i]] = v.MapIndex(k)
		}
		sort.Strings(ks)
		sb.WriteString("map[")
		for _, k := range ks {
			sb.WriteString(k + ":")
			dump(sb, byKey[k], seen, depth+1)
			sb.WriteByte(',')
		}
		sb.WriteString("]")
	case reflect.String:
		sb.WriteString(strconv.Quote(v.String()))
	case reflect.Bool:
		sb.WriteString(strconv.FormatBool(v.Bool()))
	case reflect.Int, reflect.Int8, reflect.Int16, reflect.Int32, reflect.Int64:
		sb.WriteString(strconv.FormatInt(v.Int(), 10))
	case reflect.Uint, reflect.Uint8, reflect.Uint16, reflect.Uint32, reflect.Uint64, reflect.Uintptr:
		sb.WriteString(strconv.FormatUint(v.Uint(), 10))
	case reflect.Float32, reflect.Float64:
		sb.WriteString(strconv.FormatUint(math.Float64bits(v.Float()), 16))
	case reflect.Func, reflect.Chan, reflect.UnsafePointer:
		if v.IsNil() {
			sb.WriteString("nil")
		} else {
			sb.WriteString("fn")
		}
	default:
		sb.WriteString("?")
	}
}

func AddOverflows(a, b int64) bool {
	c := a + b
	return (c > a) != (b > 0)
}
func SubOverflows(a, b int64) bool {
	c := a - b
	return (c < a) != (b > 0)
}
func MulOverflows(a, b int64) bool {
	if a == 0 || b == 0 {
		return false
	}
	c := a * b
	if (c < 0) != ((a < 0) != (b < 0)) {
		return true
	}
	return c/b != a || (a == -1 && b == math.MinInt64) || (b == -1 && a == math.MinInt64)
}

// CmpIntFloat is the sign of (i - f) over the reals; f must be finite.
func CmpIntFloat(i int64, f float64) int64 {
	if f >= 9223372036854775808.0 {
		return -1
	}
	if f < -9223372036854775808.0 {
		return 1
	}
	fl := math.Floor(f)
	fi := int64(fl)
	switch {
	case i < fi:
		return -1
	case i > fi:
		return 1
	case fl != f:
		return -1
	}
	return 0
}

// RoundFloat rounds to an integral value: 0 nearest-even, 1 nearest-away,
// 2 ceil, 3 floor, 4 trunc.
func RoundFloat(f float64, mode int) float64 {
	switch mode {
	case 0:
		return math.RoundToEven(f)
	case 1:
		return math.Round(f)
	case 2:
		return math.Ceil(f)
	case 3:
		return math.Floor(f)
	}
	return math.Trunc(f)
}

// Option switches an engine modelling option for the rest of the path
// ("exact-small-floats": FormatFloat of integral |x| < 1000 is computed;
// "format-errors": error messages are formatted). Natively a no-op.
func Option(name string) {}
