//go:build verif

package harness

import (
	"unicode/utf8"

	"github.com/theory/sqljson/path"
	"github.com/theory/sqljson/path/ast"
	"harness/nd"
)

var _ = reg("C02_Strings", C02_Strings)
var _ = reg("C02_Shapes", C02_Shapes)
var _ = reg("C02_Pool", C02_Pool)
var _ = reg("C02_Bounds", C02_Bounds)
var _ = reg("C02_Ints", C02_Ints)
var _ = reg("C02_Numerics", C02_Numerics)

// roundTrip checks Parse(p.String()): success, same mode / predicate flag /
// tree, and String as a fixed point.
func roundTrip(tag string, p *path.Path) *path.Path {
	text := p.String()
	q, err := path.Parse(text)
	if boolUnaryWithAccessor(p.Root()) {
		// family of the listed known finding: exists(...), !(...) and
		// (...) is unknown followed by an accessor are printed without the
		// parentheses they need
		tag += " [boolean-unary-with-accessor]"
	}
	nd.Assert(err == nil, tag+"/printed-text-does-not-parse")
	if err != nil {
		return nil
	}
	nd.Assert(q.IsLax() == p.IsLax() && q.IsPredicate() == p.IsPredicate(), tag+"/mode-or-predicate-flag")
	nd.Assert(eqNode(p.Root(), q.Root()), tag+"/tree-changed")
	nd.Assert(q.String() == text, tag+"/String-not-a-fixed-point")
	return q
}

// oneRune: a symbolic Unicode scalar value (not NUL) as UTF-8: 1 or 2
// symbolic bytes, or a forked lead byte plus two symbolic continuation bytes.
func oneRune() string {
	var s string
	switch nd.Choice(3) {
	case 0:
		s = nd.StringN(1)
	case 1:
		s = nd.StringN(2)
	case 2:
		leads := []byte{0xE0, 0xE2, 0xED, 0xEE, 0xEF}
		if nd.Thorough() {
			leads = []byte{0xE0, 0xE1, 0xE2, 0xE3, 0xE4, 0xE5, 0xE6, 0xE7, 0xE8, 0xE9, 0xEA, 0xEB, 0xEC, 0xED, 0xEE, 0xEF}
		}
		s = string([]byte{leads[nd.Choice(len(leads))]}) + nd.StringN(2)
	}
	nd.Assume(utf8.ValidString(s))
	nd.Assume(utf8.RuneCountInString(s) == 1)
	nd.Assume(s[0] != 0)
	return s
}

var astralSamples = []string{"\U0001F600", "\U0010FFFF", "\U000E0001", "\U00010000", "\U0001D11E", "\U000F0000"}

// C02_Strings: every code point (all of the BMP symbolically, astral by
// sample) as the content of a string literal, a key and a variable name,
// alone and next to characters that interact with escaping.
func C02_Strings() {
	var r string
	if nd.Choice(8) == 7 {
		r = astralSamples[nd.Choice(len(astralSamples))]
	} else {
		r = oneRune()
	}
	ctxs := [][2]string{{"", ""}, {"\\", ""}, {"", "u0041"}, {"a", ""}, {"", "a"}, {"", "\""}, {"", "x41"}, {"$", ""}}
	nctx := 3
	if nd.Thorough() {
		nctx = len(ctxs)
	}
	ctx := ctxs[nd.Choice(nctx)]
	s := ctx[0] + r + ctx[1]
	var root ast.Node
	kind := nd.Choice(3)
	switch kind {
	case 0:
		root = ast.NewString(s)
	case 1:
		root = ast.LinkNodes([]ast.Node{ast.NewConst(ast.ConstRoot), ast.NewKey(s)})
	case 2:
		root = ast.NewVariable(s)
	}
	tree, err := ast.New(true, false, root)
	if err != nil {
		return
	}
	tag := "C02/" + []string{"string", "key", "variable"}[kind]
	q := roundTrip(tag, path.New(tree))
	if q == nil {
		return
	}
	var got string
	switch n := q.Root().(type) {
	case *ast.StringNode:
		got = n.Text()
	case *ast.VariableNode:
		got = n.Text()
	case *ast.ConstNode:
		if k, ok := n.Next().(*ast.KeyNode); ok {
			got = k.Text()
		}
	}
	nd.Assert(got == s, tag+"/content-changed")
}

var shapeAtoms = []string{"1", "$a", "$.a", "1.5", "\"s\"", "$[0]"}
var shapeAcc = []string{"", ".abs()", "[0]", ".a", ".type()", " ? (@ > 1)"}

// quick tier: the first three atoms / accessors only
func nAtoms() int {
	if nd.Thorough() {
		return len(shapeAtoms)
	}
	return 3
}
var arithOps = []string{"+", "-", "*", "/", "%"}

var sideAtoms = []string{"1", "$a"}

// genExpr builds a fully parenthesised arithmetic expression of the given
// depth, so that the intended tree is forced whatever the printer later
// omits: a chain of operators, each the left or right operand (or the sign
// operand) of the next, every level with or without trailing accessors.
func genExpr(depth int) string {
	if depth == 0 {
		return shapeAtoms[nd.Choice(nAtoms())]
	}
	var s string
	switch nd.Choice(5) {
	case 0:
		return shapeAtoms[nd.Choice(nAtoms())]
	case 1:
		s = "(" + genExpr(depth-1) + ") " + arithOps[nd.Choice(5)] + " " + sideAtoms[nd.Choice(nAtoms()/3)]
	case 2:
		s = sideAtoms[nd.Choice(nAtoms()/3)] + " " + arithOps[nd.Choice(5)] + " (" + genExpr(depth-1) + ")"
	case 3:
		s = "-(" + genExpr(depth-1) + ")"
	case 4:
		s = "+(" + genExpr(depth-1) + ")"
	}
	acc := shapeAcc[nd.Choice(nAtoms())]
	if acc != "" {
		s = "(" + s + ")" + acc
	}
	return s
}

var cmpOpsAll = []string{"==", "!=", "<", "<=", ">", ">=", "<>"}

func genPred(depth int) string {
	var k int
	if depth == 0 {
		k = nd.Choice(4)
	} else {
		k = nd.Choice(8)
	}
	switch k {
	case 0:
		if nd.Choice(2) == 0 {
			return "(" + genExpr(1) + ") " + cmpOpsAll[nd.Choice(7)] + " " + sideAtoms[nd.Choice(2)]
		}
		return sideAtoms[nd.Choice(2)] + " " + cmpOpsAll[nd.Choice(7)] + " (" + genExpr(1) + ")"
	case 1:
		return "exists(" + genExpr(1) + ")"
	case 2:
		return "(" + genExpr(1) + ") starts with \"a\""
	case 3:
		return "(" + genExpr(1) + ") like_regex \"^a\" flag \"i\""
	case 4:
		if nd.Choice(2) == 0 {
			return "(" + genPred(depth-1) + ") && ($b == 1 || $c == 2)"
		}
		return "($b == 1 || $c == 2) && (" + genPred(depth-1) + ")"
	case 5:
		if nd.Choice(2) == 0 {
			return "(" + genPred(depth-1) + ") || ($b == 1 && $c == 2)"
		}
		return "($b == 1 && $c == 2) || (" + genPred(depth-1) + ")"
	case 6:
		return "!(" + genPred(depth-1) + ")"
	}
	return "(" + genPred(depth-1) + ") is unknown"
}

// C02_Shapes: each operator as operand of each other operator, with and
// without a trailing accessor chain (depth 2, thorough 3), arithmetic and
// predicate forms, as a root, as a filter condition and as a subscript.
func C02_Shapes() {
	depth := 2
	pd := 0
	if nd.Thorough() {
		pd = 1
	}
	var src string
	switch nd.Choice(5) {
	case 0:
		src = genExpr(depth)
	case 1:
		src = genPred(1)
	case 2:
		src = "$ ? (" + genPred(pd) + ")"
	case 3:
		src = "$[" + genExpr(1) + " to " + sideAtoms[nd.Choice(2)] + ", " + genExpr(pd) + "]"
	case 4:
		src = "(" + genPred(pd) + ")" + shapeAcc[1+nd.Choice(len(shapeAcc)-1)]
	}
	src = modePrefix() + src
	p, err := path.Parse(src)
	if err != nil {
		nd.Cover("C02/shapes/generator-rejected")
		return
	}
	nd.Cover("C02/shapes/accepted")
	roundTrip("C02/shapes", p)
}

// C02_Pool: the pool paths round-trip, also through MarshalText /
// UnmarshalText, MarshalBinary / UnmarshalBinary and Value / Scan.
func C02_Pool() {
	src := modePrefix() + poolPaths[nd.Choice(len(poolPaths))]
	p := parse(src)
	roundTrip("C02/pool", p)
	text := p.String()
	b, err := p.MarshalText()
	var q1 path.Path
	nd.Assert(err == nil && q1.UnmarshalText(b) == nil && q1.String() == text, "C02/text-marshalling")
	b, err = p.MarshalBinary()
	var q2 path.Path
	nd.Assert(err == nil && q2.UnmarshalBinary(b) == nil && q2.String() == text, "C02/binary-marshalling")
	v, err := p.Value()
	var q3 path.Path
	nd.Assert(err == nil && q3.Scan(v) == nil && q3.String() == text, "C02/value-scan")
	var q4 path.Path
	nd.Assert(q4.Scan([]byte(text)) == nil && q4.String() == text, "C02/scan-bytes")
}

// C02_Bounds: every .** bound combination (levels 0..255 symbolically,
// unbounded, and MaxUint32 neighbours).
func C02_Bounds() {
	special := []int{-1, 0, 1, 2, 255, 256, 4294967294, 4294967295, 4294967296}
	var lo, hi int
	switch nd.Choice(3) {
	case 0:
		lo, hi = int(nd.Byte()), special[nd.Choice(len(special))]
	case 1:
		lo, hi = special[nd.Choice(len(special))], int(nd.Byte())
	case 2:
		lo, hi = special[nd.Choice(len(special))], special[nd.Choice(len(special))]
	}
	root := ast.LinkNodes([]ast.Node{ast.NewConst(ast.ConstRoot), ast.NewAny(lo, hi), ast.NewKey("a")})
	tree, err := ast.New(nd.Choice(2) == 0, false, root)
	if err != nil {
		return
	}
	roundTrip("C02/any-bounds", path.New(tree))
}

// C02_Ints: integer literals in every radix (two symbolic digits inside the
// templates of C04_Ints) keep their value through String and re-parsing.
func C02_Ints() {
	t := intTemplates[nd.Choice(len(intTemplates))]
	d := nd.ASCIIN(2)
	nd.Assume(isDigits(d, t.base))
	lit := t.pre + d + t.suf
	src := []string{lit, "-" + lit, "$[" + lit + "]", "(" + lit + ").abs()", "1 - " + lit}[nd.Choice(5)]
	p, err := path.Parse(src)
	if err != nil {
		return
	}
	roundTrip("C02/int-literal", p)
}

// boolUnaryWithAccessor: some exists / ! / is unknown node in the tree is
// followed by an accessor.
func boolUnaryWithAccessor(n ast.Node) bool {
	if isNilNode(n) {
		return false
	}
	switch x := n.(type) {
	case *ast.UnaryNode:
		switch x.Operator() {
		case ast.UnaryExists, ast.UnaryNot, ast.UnaryIsUnknown:
			if x.Next() != nil {
				return true
			}
		}
		if boolUnaryWithAccessor(x.Operand()) {
			return true
		}
	case *ast.BinaryNode:
		if boolUnaryWithAccessor(x.Left()) || boolUnaryWithAccessor(x.Right()) {
			return true
		}
	case *ast.RegexNode:
		if boolUnaryWithAccessor(x.Operand()) {
			return true
		}
	case *ast.ArrayIndexNode:
		for _, s := range x.Subscripts() {
			if boolUnaryWithAccessor(s) {
				return true
			}
		}
	}
	return boolUnaryWithAccessor(n.Next())
}

// C02_Numerics: non-integer literal spellings with two symbolic digits keep
// their node kind and value through String and re-parsing.
func C02_Numerics() {
	d := nd.ASCIIN(2)
	nd.Assume(isDigits(d, 10))
	x, y := d[:1], d[1:]
	forms := []string{x + "." + y, x + ".0", d + ".", "." + d, x + "e" + y, x + "." + y + "e1", d + "e-1", x + ".5e+" + y, x + y + ".00", "0." + d}
	lit := forms[nd.Choice(len(forms))]
	src := []string{lit, "-" + lit, "$[" + lit + "]", "(" + lit + ").abs()", "$a / " + lit, lit + " / 3"}[nd.Choice(6)]
	p, err := path.Parse(src)
	if err != nil {
		return
	}
	tag := "C02/numeric-literal"
	if integralNumeric(p.Root()) {
		// family of the listed known finding (4.0 prints as 4)
		tag += " [integral-value]"
	}
	roundTrip(tag, p)
}

// integralNumeric: the tree holds a numeric (non-integer) literal node whose
// value is integral.
func integralNumeric(n ast.Node) bool {
	if isNilNode(n) {
		return false
	}
	switch x := n.(type) {
	case *ast.NumericNode:
		f := x.Float()
		if f == float64(int64(f)) {
			return true
		}
	case *ast.UnaryNode:
		if integralNumeric(x.Operand()) {
			return true
		}
	case *ast.BinaryNode:
		if integralNumeric(x.Left()) || integralNumeric(x.Right()) {
			return true
		}
	case *ast.ArrayIndexNode:
		for _, s := range x.Subscripts() {
			if integralNumeric(s) {
				return true
			}
		}
	}
	return integralNumeric(n.Next())
}

var _ = reg("C02_QuotedText", C02_QuotedText)

var oddRunes = []string{"\u0085", "\u00a0", "\u2028", "\ufeff", "\ufffd", "\U000E0001", "\U0010FFFF", "\U0001F600", "\U000F0000", "\"", "\\", "'"}

// C02_QuotedText: every other place where the printer quotes text - the
// like_regex pattern, the datetime template, the starts with operand -
// containing each control character (one symbolic byte), DEL and a sample of
// characters that quoting functions treat specially.
func C02_QuotedText() {
	var c string
	if nd.Choice(2) == 0 {
		c = nd.StringN(1)
		nd.Assume((c[0] >= 1 && c[0] < 0x20) || c[0] == 0x7f)
	} else {
		c = oddRunes[nd.Choice(len(oddRunes))]
	}
	text := "a" + c + "b"
	root := ast.NewConst(ast.ConstRoot)
	var node ast.Node
	kind := nd.Choice(3)
	switch kind {
	case 0:
		pattern := text
		if c == "\\" {
			pattern = "a\\\\b" // a regular expression for a literal backslash
		}
		flags := []string{"", "i", "q"}[nd.Choice(3)]
		re, err := ast.NewRegex(root, pattern, flags)
		if err != nil {
			return
		}
		node = re
	case 1:
		node = ast.LinkNodes([]ast.Node{root, ast.NewUnary(ast.UnaryDateTime, ast.NewString(text))})
	case 2:
		node = ast.NewBinary(ast.BinaryStartsWith, root, ast.NewString(text))
	}
	tree, err := ast.New(true, kind != 1, node)
	if err != nil {
		return
	}
	tag := "C02/quoted-text/" + []string{"like_regex", "datetime-template", "starts-with"}[kind]
	roundTrip(tag, path.New(tree))
}
