//go:build verif

package harness

import (
	"math"

	"github.com/theory/sqljson/path/exec"
	"harness/nd"
)

var _ = reg("C16_Numeric", C16_Numeric)
var _ = reg("C16_Kinds", C16_Kinds)
var _ = reg("C16_Strings", C16_Strings)
var _ = reg("C16_Decimal", C16_Decimal)
var _ = reg("C16_KeyValue", C16_KeyValue)
var _ = reg("C16_StringRoundTrip", C16_StringRoundTrip)

var numMethods = []string{"floor", "ceiling", "abs", "double", "number", "integer", "bigint", "boolean"}

const two63 = 9223372036854775808.0

// C16_Numeric: numeric methods on numeric items in every representation,
// unconstrained values, against rounding / range oracles in the solver.
func C16_Numeric() {
	mi := nd.Choice(len(numMethods))
	m := numMethods[mi]
	x := nd.JSON(numSpec)
	_, isInt, i, f := numView(x)
	r, err := parse("$v."+m+"()").Query(bg, nil, exec.WithVars(exec.Vars{"v": x}))
	tag := "C16/" + m + "/" + kindName(x)
	nd.Cover(tag)
	if err != nil {
		nd.Assert(isVerbose(err), tag+"/error-class")
	} else {
		nd.Assert(len(r) == 1, tag+"/one-result")
		if len(r) != 1 {
			return
		}
	}
	switch m {
	case "floor", "ceiling":
		nd.Assert(err == nil, tag+"/spurious-error")
		if err != nil {
			return
		}
		if isInt {
			v, ok := r[0].(int64)
			nd.Assert(ok && v == i, tag+"/value")
		} else {
			mode := 3
			if m == "ceiling" {
				mode = 2
			}
			v, ok := r[0].(float64)
			nd.Assert(ok && v == nd.RoundFloat(f, mode), tag+"/value")
		}
	case "abs":
		nd.Assert(err == nil, tag+"/spurious-error")
		if err != nil {
			return
		}
		if isInt {
			switch v := r[0].(type) {
			case int64:
				nd.Assert(v >= 0, tag+"/negative-result")
				nd.Assert(nd.Any(v == i, v == -i), tag+"/value")
			case float64:
				nd.Assert(nd.All(i == math.MinInt64, v == two63), tag+"/float-from-int")
			default:
				nd.Assert(false, tag+"/result-kind")
			}
		} else {
			v, ok := r[0].(float64)
			nd.Assert(ok && v == math.Abs(f), tag+"/value")
		}
	case "double", "number":
		nd.Assert(err == nil, tag+"/spurious-error")
		if err != nil {
			return
		}
		v, ok := r[0].(float64)
		nd.Assert(ok && v == f && finite(v), tag+"/value")
	case "integer":
		// round half away from zero, result within int32 or an error
		var inRange, okVal bool
		if isInt {
			inRange = nd.All(i >= math.MinInt32, i <= math.MaxInt32)
		} else {
			rf := nd.RoundFloat(f, 1)
			inRange = nd.All(rf >= math.MinInt32, rf <= math.MaxInt32)
		}
		if err != nil {
			nd.Assert(!inRange, tag+"/in-range-rejected")
			return
		}
		v, ok := r[0].(int64)
		nd.Assert(ok, tag+"/result-kind")
		if !ok {
			return
		}
		nd.Assert(nd.All(v >= math.MinInt32, v <= math.MaxInt32), tag+"/result-outside-int32")
		nd.Assert(inRange, tag+"/out-of-range-accepted")
		if isInt {
			okVal = v == i
		} else {
			okVal = float64(v) == nd.RoundFloat(f, 1)
		}
		nd.Assert(okVal, tag+"/value")
	case "bigint":
		if isInt {
			nd.Assert(err == nil, tag+"/spurious-error")
			if err == nil {
				v, ok := r[0].(int64)
				nd.Assert(ok && v == i, tag+"/value")
			}
			return
		}
		rf := nd.RoundFloat(f, 1)
		inRange := nd.All(rf >= -two63, rf < two63)
		if err != nil {
			nd.Assert(!inRange, tag+"/in-range-rejected")
			return
		}
		v, ok := r[0].(int64)
		nd.Assert(ok, tag+"/result-kind")
		if !ok {
			return
		}
		nd.Assert(inRange, tag+"/out-of-range-accepted")
		nd.Assert(nd.CmpIntFloat(v, rf) == 0, tag+"/value")
	case "boolean":
		if isInt {
			nd.Assert(err == nil, tag+"/spurious-error")
			if err == nil {
				v, ok := r[0].(bool)
				nd.Assert(ok && v == (i != 0), tag+"/value")
			}
			return
		}
		integral := f == math.Trunc(f)
		if err != nil {
			nd.Assert(!integral, tag+"/integral-rejected")
			return
		}
		v, ok := r[0].(bool)
		nd.Assert(ok && integral, tag+"/non-integral-accepted")
		if ok {
			nd.Assert(v == (f != 0), tag+"/value")
		}
	}
}

var allMethods = []string{"type", "size", "floor", "ceiling", "abs", "double", "number", "integer", "bigint", "boolean", "string", "keyvalue", "decimal(5,2)"}

// accepts: does method m apply to an item of this kind (arrays aside)?
func accepts(m string, v any) bool {
	isNum, _, _, _ := numView(v)
	switch m {
	case "type":
		return true
	case "size":
		return true // (non-arrays: 1 in lax mode; strict is handled by the caller)
	case "floor", "ceiling", "abs":
		return isNum
	case "double", "number", "integer", "bigint", "decimal(5,2)":
		_, isStr := v.(string)
		return isNum || isStr
	case "boolean", "string":
		_, isStr := v.(string)
		_, isBool := v.(bool)
		return isNum || isStr || isBool
	case "keyvalue":
		_, isObj := v.(map[string]any)
		return isObj
	}
	return false
}

// C16_Kinds: every method on every kind of item: accepted kinds, rejection
// with the suppressible error, one-level unwrapping of arrays in lax mode and
// rejection in strict mode; .type() names and .size().
func C16_Kinds() {
	strict := nd.Choice(2) == 1
	mode := ""
	if strict {
		mode = "strict "
	}
	m := allMethods[nd.Choice(len(allMethods))]
	src := mode + "$." + m
	if m != "decimal(5,2)" {
		src += "()"
	}
	doc := nd.JSON(nd.Spec{Kinds: nd.KNull | nd.KBool | nd.KFloat | nd.KNumber | nd.KArray | nd.KObject, Depth: 1, Width: 2, Keys: []string{"a"}})
	r, err := parse(src).Query(bg, doc)
	tag := "C16/kinds " + mode + m + "/" + kindName(doc)
	nd.Cover(tag)
	if err != nil {
		nd.Assert(isVerbose(err), tag+"/error-class")
	}
	items := []any{doc}
	if arr, ok := doc.([]any); ok && m != "type" && m != "size" {
		if strict {
			nd.Assert(err != nil, tag+"/strict-array-must-be-rejected")
			return
		}
		items = arr
	}
	switch m {
	case "type":
		nd.Assert(err == nil && len(r) == 1, tag+"/result")
		if err == nil && len(r) == 1 {
			want := map[string]string{"null": "null", "bool": "boolean", "float64": "number", "number-int": "number", "number-float": "number", "string": "string", "array": "array", "object": "object"}[kindName(doc)]
			s, ok := r[0].(string)
			nd.Assert(ok && s == want, tag+"/name")
		}
		return
	case "size":
		if arr, ok := doc.([]any); ok {
			nd.Assert(err == nil && len(r) == 1, tag+"/result")
			if err == nil && len(r) == 1 {
				n, ok := r[0].(int64)
				nd.Assert(ok && n == int64(len(arr)), tag+"/length")
			}
		} else if strict {
			nd.Assert(err != nil, tag+"/strict-non-array-must-be-rejected")
		} else {
			nd.Assert(err == nil && len(r) == 1, tag+"/result")
			if err == nil && len(r) == 1 {
				n, ok := r[0].(int64)
				nd.Assert(ok && n == 1, tag+"/one-for-non-array")
			}
		}
		return
	}
	allOK := true
	for _, it := range items {
		if !accepts(m, it) {
			allOK = false
		}
	}
	if !allOK {
		nd.Assert(err != nil, tag+"/wrong-kind-accepted")
		return
	}
	if m == "keyvalue" {
		nd.Assert(err == nil, tag+"/spurious-error")
		return
	}
	// numeric kinds: failures are decided in C16_Numeric; here only that each
	// accepted item yields at most one result
	if err == nil {
		nd.Assert(len(r) == len(items), tag+"/one-result-per-item")
	}
}

var boolWords = []struct {
	w string
	v bool
}{{"t", true}, {"true", true}, {"f", false}, {"false", false}, {"y", true}, {"yes", true}, {"n", false}, {"no", false}, {"on", true}, {"off", false}, {"1", true}, {"0", false}}

func foldEq(s, w string) bool {
	if len(s) != len(w) {
		return false
	}
	conds := []bool{}
	for i := 0; i < len(s); i++ {
		c := s[i]
		conds = append(conds, nd.Any(c == w[i], nd.All(c >= 'A', c <= 'Z', c+32 == w[i])))
	}
	return nd.All(conds...)
}

// C16_Strings: string inputs: .boolean() accepts exactly the documented
// words in any letter case; .integer() / .bigint() parse decimal text and
// enforce their ranges; .double() / .number() reject non-numbers and
// out-of-range text.
func C16_Strings() {
	switch nd.Choice(3) {
	case 0:
		// boolean: a documented word in a forked letter case, or two symbolic bytes
		var s string
		if nd.Choice(2) == 0 {
			s = mixCase(boolWords[nd.Choice(len(boolWords))].w)
		} else {
			s = nd.ASCII(2)
		}
		r, err := parse("$.boolean()").Query(bg, s)
		var isWord, val bool
		for _, bw := range boolWords {
			if len(bw.w) == len(s) {
				hit := foldEq(s, bw.w)
				isWord = nd.Any(isWord, hit)
				val = nd.Any(val, nd.All(hit, bw.v))
			}
		}
		if err != nil {
			nd.Assert(isVerbose(err), "C16/boolean(string)/error-class")
			nd.Assert(!isWord, "C16/boolean(string)/documented-word-rejected")
			return
		}
		nd.Assert(isWord, "C16/boolean(string)/undocumented-word-accepted")
		b, ok := r[0].(bool)
		nd.Assert(ok && b == val, "C16/boolean(string)/value")
	case 1:
		// integer / bigint: decimal text around the range boundaries
		tmpl := []struct {
			pre, suf string
		}{{"", ""}, {"-", ""}, {"21474836", ""}, {"-21474836", ""}, {"92233720368547758", ""}, {"-92233720368547758", ""}, {"+", ""}, {" ", ""}, {"", " "}, {"0x", ""}, {"", ".0"}, {"1e", ""}}
		t := tmpl[nd.Choice(len(tmpl))]
		d := nd.ASCIIN(2)
		nd.Assume(isDigits(d, 10))
		s := t.pre + d + t.suf
		big := nd.Choice(2) == 1
		m := "integer"
		if big {
			m = "bigint"
		}
		r, err := parse("$."+m+"()").Query(bg, s)
		tag := "C16/" + m + "(string)"
		// reference: optional sign, digits only
		neg, body, ok := false, s, true
		if len(body) > 0 && (body[0] == '-' || body[0] == '+') {
			neg = body[0] == '-'
			body = body[1:]
		}
		for k := 0; k < len(body); k++ {
			if body[k] < '0' || body[k] > '9' {
				ok = false
			}
		}
		if len(body) == 0 {
			ok = false
		}
		if !ok {
			nd.Assert(err != nil && isVerbose(err), tag+"/non-decimal-text-accepted")
			return
		}
		// value with overflow tracking (at most 19 digits here)
		var mag uint64
		over := false
		for k := 0; k < len(body); k++ {
			dg := uint64(body[k] - '0')
			if mag > (math.MaxUint64-dg)/10 {
				over = true
			}
			mag = mag*10 + dg
		}
		var fits bool
		if big {
			fits = !over && (mag <= math.MaxInt64 || (neg && mag == 1<<63))
		} else {
			fits = !over && (mag <= math.MaxInt32 || (neg && mag == 1<<31))
		}
		if err != nil {
			nd.Assert(isVerbose(err), tag+"/error-class")
			nd.Assert(!fits, tag+"/in-range-rejected")
			return
		}
		nd.Assert(fits, tag+"/out-of-range-accepted")
		v, isI := r[0].(int64)
		want := int64(mag)
		if neg {
			want = -want
		}
		nd.Assert(isI && v == want, tag+"/value")
	case 2:
		// double / number: accept exactly what ParseFloat accepts as finite
		words := []string{"1", "1.5", "-2e3", ".5", "5.", "1e400", "-1e400", "nan", "NaN", "inf", "-Infinity", "", " 1", "1 ", "0x1p4", "1_0", "abc", "1e", "--1"}
		s := words[nd.Choice(len(words))]
		m := []string{"double", "number"}[nd.Choice(2)]
		r, err := parse("$."+m+"()").Query(bg, s)
		tag := "C16/" + m + "(string) " + s
		if err == nil {
			f, ok := r[0].(float64)
			nd.Assert(ok && finite(f), tag+"/non-finite-accepted")
		} else {
			nd.Assert(isExec(err), tag+"/error-class")
			nd.Assert(isVerbose(err), tag+"/rejection-not-suppressible")
		}
	}
}

// C16_Decimal: precision and scale: range errors are non-suppressible;
// results are finite; after rounding to the scale (carries included) a value
// is accepted exactly when it has at most precision - scale digits before
// the decimal point.
func C16_Decimal() {
	ps := []int{0, 1, 2, 3, 1001, -1, 4, 15, 1000}
	ss := []int{-1001, -2, -1, 0, 1, 2, 309, 1001, -1000, 308, 1000}
	np, ns := 5, 8
	if nd.Thorough() {
		np, ns = len(ps), len(ss)
	}
	p, s := ps[nd.Choice(np)], ss[nd.Choice(ns)]
	hasScale := nd.Choice(2) == 1
	src := "$v.decimal(" + itoa(p)
	if hasScale {
		src += "," + itoa(s)
	} else {
		s = 0
	}
	src += ")"
	// the value: sign * ((one symbolic byte) * multiplier + fraction), as
	// int64 or float64 (everything ranges over a small domain)
	mults := []int64{1, 100, 7}
	nm := 2
	if nd.Thorough() {
		nm = 3
	}
	mag := int64(nd.Byte()) * mults[nd.Choice(nm)]
	fracs := []struct {
		f float64
		h int64 // hundredths
	}{{0, 0}, {0.5, 50}, {0.25, 25}, {0.99, 99}}
	fr := fracs[nd.Choice(len(fracs))]
	neg := nd.Choice(2) == 1
	var x any
	if fr.h == 0 && nd.Choice(2) == 0 {
		if neg {
			x = -mag
		} else {
			x = mag
		}
	} else {
		f := float64(mag) + fr.f
		if neg {
			f = -f
		}
		x = f
	}
	r, err := parse(src).Query(bg, nil, exec.WithVars(exec.Vars{"v": x}))
	tag := "C16/decimal"
	if p < 1 || p > 1000 || s < -1000 || s > 1000 {
		nd.Assert(err != nil && hardErr(err), tag+"/precision-or-scale-out-of-range-must-be-non-suppressible")
		return
	}
	if err != nil {
		nd.Assert(isVerbose(err), tag+"/error-class")
	} else {
		v, ok := r[0].(float64)
		nd.Assert(ok && finite(v), tag+"/non-finite-result")
	}
	// digit rule, decided for scales -2..2 (ties occur only where the
	// fraction is exactly representable, so decimal and binary rounding agree)
	if s < -2 || s > 2 || (fr.h == 99 && s == 2) {
		return
	}
	X := mag*100 + fr.h // |x| in hundredths
	unit := int64(1)
	for i := 0; i < 2-s; i++ {
		unit *= 10
	}
	R := ((X + unit/2) / unit) * unit
	digits := 0
	for t := R / 100; t > 0; t /= 10 {
		digits++
	}
	if digits == 0 || digits <= p-s {
		nd.Assert(err == nil, tag+"/fits-but-rejected")
		if err == nil {
			v, _ := r[0].(float64)
			want := float64(R) / 100
			if neg {
				want = -want
			}
			nd.Assert(v == want, tag+"/rounded-value")
		}
	} else {
		nd.Assert(err != nil, tag+"/too-many-digits-accepted")
	}
}

func itoa(n int) string {
	if n == 0 {
		return "0"
	}
	neg := n < 0
	if neg {
		n = -n
	}
	s := ""
	for n > 0 {
		s = string(rune('0'+n%10)) + s
		n /= 10
	}
	if neg {
		s = "-" + s
	}
	return s
}

// C16_KeyValue: one {key, value, id} per member, keys sorted, ids equal
// within an object, distinct across objects, stable over executions.
func C16_KeyValue() {
	mk := func() map[string]any {
		m := map[string]any{}
		for _, k := range []string{"a", "b"} {
			if nd.Choice(2) == 1 {
				m[k] = nd.JSON(nd.Spec{Kinds: nd.KNull | nd.KFloat})
			}
		}
		return m
	}
	o1, o2 := mk(), mk()
	doc := []any{o1, o2}
	p := parse("$[*].keyvalue()")
	r, err := p.Query(bg, doc)
	tag := "C16/keyvalue"
	nd.Assert(err == nil, tag+"/error")
	if err != nil {
		return
	}
	nd.Assert(len(r) == len(o1)+len(o2), tag+"/one-triple-per-member")
	if len(r) != len(o1)+len(o2) {
		return
	}
	ids := make([]int64, len(r))
	for k, it := range r {
		t, ok := it.(map[string]any)
		nd.Assert(ok && isKeyValueTriple(t), tag+"/triple-shape")
		if !ok {
			return
		}
		src := o1
		if k >= len(o1) {
			src = o2
		}
		key, isStr := t["key"].(string)
		nd.Assert(isStr, tag+"/key-kind")
		v, has := src[key]
		nd.Assert(has && sameItem(v, t["value"]), tag+"/value")
		id, isI := t["id"].(int64)
		nd.Assert(isI, tag+"/id-kind")
		ids[k] = id
	}
	// keys sorted within each object
	if len(o1) == 2 {
		nd.Assert(r[0].(map[string]any)["key"] == "a" && r[1].(map[string]any)["key"] == "b", tag+"/keys-sorted")
		nd.Assert(ids[0] == ids[1], tag+"/ids-equal-within-object")
	}
	if len(o2) == 2 {
		n := len(o1)
		nd.Assert(ids[n] == ids[n+1], tag+"/ids-equal-within-object")
	}
	if len(o1) > 0 && len(o2) > 0 {
		nd.Assert(ids[0] != ids[len(o1)], tag+"/ids-distinct-across-objects")
	}
	// stable over repeated executions
	r2, err2 := p.Query(bg, doc)
	nd.Assert(err2 == nil && len(r2) == len(r), tag+"/second-run")
	if err2 == nil && len(r2) == len(r) {
		for k := range r {
			id2, _ := r2[k].(map[string]any)["id"].(int64)
			nd.Assert(id2 == ids[k], tag+"/ids-stable")
		}
	}
}

var _ = reg("C16_KeyValueChained", C16_KeyValueChained)

// C16_KeyValueChained: ids of .keyvalue() applied to generated triples and
// to what is reached through them: equal within an object, distinct across
// objects, stable over repeated executions.
func C16_KeyValueChained() {
	paths := []string{"$.keyvalue().keyvalue()", "$[*].keyvalue().keyvalue()", "$.keyvalue().value.keyvalue()", "$v.keyvalue().keyvalue()"}
	src := paths[nd.Choice(len(paths))]
	leaf := nd.Spec{Kinds: nd.KFloat | nd.KObject, Depth: 1, Width: 1, Keys: []string{"a"}}
	obj := map[string]any{"a": nd.JSON(leaf)}
	if nd.Choice(2) == 1 {
		obj["b"] = nd.JSON(leaf)
	}
	var doc any = obj
	if contains(src, "[*]") {
		doc = []any{obj, map[string]any{"a": nd.JSON(leaf)}}
	}
	p := parse(src)
	o := exec.WithVars(exec.Vars{"v": obj})
	r1, err1 := p.Query(bg, doc, o)
	r2, err2 := p.Query(bg, doc, o)
	tag := "C16/keyvalue/chained"
	if contains(src, ".value.keyvalue()") {
		tag += " [id-relative-to-generated-object]"
	}
	nd.Assert(errClass(err1) == errClass(err2) && len(r1) == len(r2), tag+"/runs-differ")
	if err1 != nil || err2 != nil || len(r1) != len(r2) {
		return
	}
	for k := range r1 {
		t1, ok1 := r1[k].(map[string]any)
		t2, ok2 := r2[k].(map[string]any)
		nd.Assert(ok1 && ok2 && isKeyValueTriple(t1), tag+"/triple-shape")
		if !ok1 || !ok2 {
			return
		}
		i1, _ := t1["id"].(int64)
		i2, _ := t2["id"].(int64)
		nd.Assert(i1 == i2, tag+"/ids-stable")
	}
	// ids of triples generated from different objects differ: consecutive
	// results with the keys of one generated triple (id, key, value) share an
	// id, and the next group has another one
	if !contains(src, ".value.") && len(r1) >= 6 {
		a, _ := r1[0].(map[string]any)["id"].(int64)
		b, _ := r1[3].(map[string]any)["id"].(int64)
		a2, _ := r1[2].(map[string]any)["id"].(int64)
		nd.Assert(a == a2, tag+"/ids-equal-within-object")
		nd.Assert(a != b, tag+"/ids-distinct-across-objects")
	}
}

// C16_StringRoundTrip: .string() output converts back to an equal value
// with the matching method: booleans, and int64 within |v| < 10^4 plus the
// int64 boundaries.
func C16_StringRoundTrip() {
	switch nd.Choice(3) {
	case 0:
		b := nd.Bool()
		r, err := parse("$.string().boolean()").Query(bg, b)
		nd.Assert(err == nil && len(r) == 1, "C16/string-roundtrip/bool/error")
		if err == nil && len(r) == 1 {
			v, ok := r[0].(bool)
			nd.Assert(ok && v == b, "C16/string-roundtrip/bool")
		}
	case 1:
		// small ints: two symbolic bytes form a value in -32768..32767
		nd.Option("interpret-format-int")
		lo, hi := nd.Byte(), nd.Byte()
		v := int64(int16(uint16(hi)<<8 | uint16(lo)))
		nd.Assume(v > -10000 && v < 10000)
		r, err := parse("$v.string().bigint()").Query(bg, nil, exec.WithVars(exec.Vars{"v": v}))
		nd.Assert(err == nil && len(r) == 1, "C16/string-roundtrip/int/error")
		if err == nil && len(r) == 1 {
			g, ok := r[0].(int64)
			nd.Assert(ok && g == v, "C16/string-roundtrip/int")
		}
	case 2:
		vals := []int64{math.MaxInt64, math.MinInt64, math.MaxInt32, math.MinInt32, 0, -1, 1 << 53, 1<<53 + 1}
		v := vals[nd.Choice(len(vals))]
		r, err := parse("$v.string().bigint()").Query(bg, nil, exec.WithVars(exec.Vars{"v": v}))
		nd.Assert(err == nil && len(r) == 1, "C16/string-roundtrip/int-boundary/error")
		if err == nil && len(r) == 1 {
			g, ok := r[0].(int64)
			nd.Assert(ok && g == v, "C16/string-roundtrip/int-boundary")
		}
	}
}

var _ = reg("C16_DecimalFinite", C16_DecimalFinite)

// C16_DecimalFinite: .decimal(p,s) never returns a value outside the finite
// doubles, whatever finite double it is applied to: scales at both ends of
// the float64 exponent range, where scaling or the carry of the rounding can
// overflow. The value is an unconstrained symbolic double.
func C16_DecimalFinite() {
	ss := []int{-308, -307, -300, -1, 0, 2, 300, 308, 323, -323, 1000, -1000}
	s := ss[nd.Choice(len(ss))]
	x := nd.FiniteFloat64()
	r, err := parse("$v.decimal(1000,"+itoa(s)+")").Query(bg, nil, exec.WithVars(exec.Vars{"v": x}))
	tag := "C16/decimal/finite"
	if err != nil {
		nd.Assert(isVerbose(err), tag+"/error-class")
		return
	}
	v, ok := r[0].(float64)
	nd.Assert(ok && finite(v), tag+"/non-finite-result")
}
