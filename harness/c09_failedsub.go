//go:build verif

package harness

import (
	"harness/nd"
)

var _ = reg("C09_FailedSubscript", C09_FailedSubscript)

// C09_FailedSubscript: `last` after a nested subscript that failed. Inside the
// subscript of $.a a bound expression subscripts another array ($.b[$.c]);
// that inner subscript is invalid when $.c is not a number, the failure is
// absorbed by a predicate (comparison / exists / is unknown) and evaluation
// continues to a later `last`, which must still denote $.a's last position.
func C09_FailedSubscript() {
	mode := modePrefix()
	forms := []string{
		"$.a[(0 ? ((@ == $.b[$.c]) is unknown)) to last]",
		"$.a[(1 ? ((@ == $.b[$.c]) is unknown)) - 1 + last]",
		"$.a[(0 ? (exists($.b[$.c]) || @ == 0)), last]",
		"$.a[(0 ? ((exists($.b[$.c])) is unknown || @ == 0)) to last]",
		"$.a[last - (0 ? (!(@ == $.b[$.c]) || @ == 0)), last]",
		"$.a ? (exists($.b[$.c]) || @[last] > 0)",
		"$.a[$.b[0] to last]",
	}
	form := forms[nd.Choice(len(forms))]
	n := nd.Choice(4)
	a := make([]any, n)
	for k := range a {
		a[k] = nd.JSON(nd.Spec{Kinds: nd.KFloat})
	}
	b := make([]any, 1+nd.Choice(2))
	for k := range b {
		b[k] = nd.JSON(nd.Spec{Kinds: nd.KFloat})
	}
	doc := map[string]any{"a": a, "b": b}
	if nd.Choice(2) == 1 {
		doc["c"] = nd.JSON(nd.Spec{Kinds: nd.KFloat | nd.KString | nd.KNull | nd.KBool, StrLen: 1})
	}
	checkAgainstRef("C09/failed-subscript/"+mode+form, mode+form, doc, nil, "")
}
