//go:build verif

package harness

import (
	"context"
	"errors"

	"github.com/theory/sqljson/path/exec"
	"harness/nd"
)

var _ = reg("C20_Cause", C20_Cause)

var errShutdown = errors.New("shutting down")

// C20_Cause: a context of the context package itself that is already done
// and carries a cause distinct from its Err() (WithCancelCause, and a
// WithValue child of it): the error of every entry point wraps ErrExecution
// and ctx.Err() -- context.Canceled -- whatever the cause is.
func C20_Cause() {
	src := modePrefix() + cancelSites[nd.Choice(len(cancelSites))]
	doc := map[string]any{"a": []any{float64(1), float64(2)}, "b": float64(2)}
	parent, cancel := context.WithCancelCause(context.Background())
	cancel(errShutdown)
	var ctx context.Context = parent
	if nd.Choice(2) == 1 {
		ctx = context.WithValue(parent, tzKeyForCause{}, 1)
	}
	var opts []exec.Option
	if nd.Choice(2) == 1 {
		opts = append(opts, exec.WithSilent())
	}
	p := parse(src)
	var err error
	empty := true
	switch nd.Choice(4) {
	case 0:
		var r []any
		r, err = p.Query(ctx, doc, opts...)
		empty = r == nil
	case 1:
		var r any
		r, err = p.First(ctx, doc, opts...)
		empty = r == nil
	case 2:
		var b bool
		b, err = p.Exists(ctx, doc, opts...)
		empty = !b
	case 3:
		var b bool
		b, err = p.Match(ctx, doc, opts...)
		empty = !b
	}
	tag := "C20/cause"
	nd.Assert(err != nil && err != exec.NULL, tag+"/cancellation-turned-into-a-result")
	if err == nil {
		return
	}
	nd.Assert(isExec(err) && errors.Is(err, context.Canceled), tag+"/error-does-not-wrap-ErrExecution-and-ctx.Err")
	nd.Assert(empty, tag+"/items-returned-with-cancellation")
}

type tzKeyForCause struct{}
