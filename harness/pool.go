//go:build verif

package harness

import (
	"github.com/theory/sqljson/path/exec"
	"harness/nd"
)

// poolPaths covers every node kind of the executor and the interactions the
// properties name (errors raised before / after / instead of items, filters
// around erroring steps, predicates as items, methods, variables).
var poolPaths = []string{
	// accessors
	"$", "$.a", "$.a.b", "$.*", "$[*]", "$[0]", "$[last]", "$[0 to last]", "$[1, 0]", "$[$i]",
	"$.**", "$.**{1}", "$.**{last}", "$.**.a", "$[*].a", "$.a[*]", "$.*.a",
	// filters
	"$ ? (@.a > 1)", "$[*] ? (@ > $i)", "$ ? (exists(@.a))", "$[*] ? (@.a == $v)", "$ ? (@ starts with \"x\")",
	"$[*] ? (@ like_regex \"^a\")", "$ ? (@.a == 1 && @.b == 2)", "$[*] ? (@.a == 1 || @ == 2)", "$ ? (!(@.a == 1))",
	"$ ? ((@.a == 1) is unknown)", "$[*] ? (@ ? (@.a == 1).b == 2)", "$ ? (@ == $missing)", "$[*] ? (@ > 0).a",
	// arithmetic
	"$.a + 1", "$.a - $i", "$.a * 2", "$.a / $i", "$.a % 2", "-$.a", "+$[*]", "-\"a\"", "$[*] + 1", "1 / $.a",
	"$.a + $.b", "-$[*].a",
	// predicates as items
	"$ == 1", "$.a < $i", "$.a != null", "$.a == \"x\" && $.b > 1", "!($.a == 1)", "($.a == 1) is unknown",
	"exists($.a)", "exists($[*] ? (@ > 1))", "$.a starts with $v", "($missing == 1) is unknown", "$[*] > 1",
	"($.a == 1).type()", "$.a == $.b",
	// methods
	"$.type()", "$.size()", "$[*].size()", "$.a.double()", "$.a.number()", "$.a.integer()", "$.a.bigint()",
	"$.a.boolean()", "$.a.string()", "$.a.abs()", "$.a.floor()", "$.a.ceiling()", "$.a.decimal(5,2)",
	"$.a.decimal(2)", "$.keyvalue()", "$.keyvalue().value", "$.keyvalue().key", "$[*].keyvalue().id", "$.a.type()",
	"$.a.abs() + 1", "$.a.double() * 2", "$[*].double()",
	// variables and literals
	"$missing", "$v", "$v.a", "$i + 1", "\"s\"", "null", "true", "1.5", "$v[*]", "$v ? (@ > 1)",
	// last outside subscripts is rejected by the parser; nested last
	"$[$[last]]", "$[last - 1]",
	// non-suppressible errors raised inside subscript expressions and predicates
	"$[$missing]", "$[0 to $missing]", "$ ? (@[$missing] == 1)", "$.a[$missing] == 1", "$[$[0].decimal(0)]", "$ ? (exists(@[$missing]))",
	// suppressible errors raised inside subscript expressions
	"$[$[0].double()]", "$[0, $.a]",
	// subscripts below .** (in strict mode neither checked nor, therefore, to be trusted)
	"$.**[1]", "$.**{1}[0 to 1]", "$.**[last]",
	// non-suppressible errors in the left operand and in arithmetic operands
	"$missing == $.a", "$missing + 1", "-$missing",
	"$[*] ? (@.a.decimal(0) > 1)", "$.a.decimal(0)", "$.a.decimal(5,2000)", "$ ? (@.a == $missing || @.b == 1)",
	// the document value as the right operand
	"$i < $.a", "1 <= $.a", "$v == $.a", "$[*] ? ($i > @)", "$.a.b > $.a.a", "$.keyvalue() ? (@.value > 1)",
}

func poolSize() int { return len(poolPaths) }

func poolDocSpec() nd.Spec {
	if nd.Thorough() {
		return nd.Spec{Kinds: nd.KNull | nd.KBool | nd.KFloat | nd.KNumber | nd.KNumOOR | nd.KString | nd.KArray | nd.KObject,
			Depth: 2, Width: 2, StrLen: 2, Keys: []string{"a", "b"}, ASCII: true}
	}
	return nd.Spec{Kinds: nd.KNull | nd.KBool | nd.KFloat | nd.KNumber | nd.KNumOOR | nd.KString | nd.KArray | nd.KObject,
		Depth: 2, Width: 1, StrLen: 1, Keys: []string{"a", "b"}, ASCII: true}
}

func poolVarSpec() nd.Spec {
	return nd.Spec{Kinds: nd.KNull | nd.KFloat | nd.KInt64 | nd.KNumber | nd.KNumOOR | nd.KString | nd.KArray, Depth: 1, Width: 1, StrLen: 1, ASCII: true}
}

// poolCase draws a path, mode, document and variables.
func poolCase() (src string, doc any, vars exec.Vars) {
	src = modePrefix() + poolPaths[nd.Choice(len(poolPaths))]
	doc = nd.JSON(poolDocSpec())
	vars = exec.Vars{"i": nd.JSON(nd.Spec{Kinds: nd.KFloat | nd.KInt64 | nd.KNumOOR}), "v": nd.JSON(poolVarSpec())}
	return
}
