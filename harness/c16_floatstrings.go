//go:build verif

package harness

import (
	"math"

	"github.com/theory/sqljson/path/exec"
	"harness/nd"
)

var _ = reg("C16_FloatStrings", C16_FloatStrings)

// C16_FloatStrings: .string() of a float64 converts back to the same value
// with .double(), across the exponent range. The value is assembled from a
// sign, a biased exponent drawn from a grid that brackets the int64 / uint64
// / 2^53 boundaries and both ends of the range, the top eight mantissa bits
// as one symbolic byte and the remaining 44 bits all clear or all set (whole
// and fractional values on either side of every boundary). The formatter is
// forked over the byte's values and run natively (DESIGN 2.6).
func C16_FloatStrings() {
	exps := []uint64{0, 1, 970, 1013, 1022, 1023, 1024, 1033, 1074, 1075, 1076, 1085, 1086, 1087, 1090, 1123, 1500, 2046}
	e := exps[nd.Choice(len(exps))]
	bits := e<<52 | uint64(nd.Byte())<<44
	if nd.Choice(2) == 1 {
		bits |= 1<<44 - 1
	}
	if nd.Choice(2) == 1 {
		bits |= 1 << 63
	}
	x := math.Float64frombits(bits)
	r, err := parse("$v.string().double()").Query(bg, nil, exec.WithVars(exec.Vars{"v": x}))
	nd.Assert(err == nil && len(r) == 1, "C16/string-roundtrip/float/error")
	if err == nil && len(r) == 1 {
		g, ok := r[0].(float64)
		nd.Assert(ok && g == x, "C16/string-roundtrip/float")
	}
}
