//go:build verif

package harness

import (
	"strings"
	"unicode/utf8"

	"github.com/theory/sqljson/path"
	"github.com/theory/sqljson/path/ast"
	"github.com/theory/sqljson/path/exec"
	"harness/nd"
)

var _ = reg("C12_Pair", C12_Pair)
var _ = reg("C12_Dual", C12_Dual)
var _ = reg("C12_TransLt", C12_TransLt)
var _ = reg("C12_TransEq", C12_TransEq)
var _ = reg("C12_Trichotomy", C12_Trichotomy)
var _ = reg("C12_Seq", C12_Seq)
var _ = reg("C12_StartsWith", C12_StartsWith)

var cmpOps = []string{"==", "!=", "<", "<=", ">", ">="}

func cmpSpec() nd.Spec {
	l := 2
	if nd.Thorough() {
		l = 4
	}
	return nd.Spec{Kinds: nd.KNull | nd.KBool | nd.KFloat | nd.KNumber | nd.KInt64 | nd.KString | nd.KArray | nd.KObject,
		Depth: 1, Width: 1, StrLen: l, Keys: []string{"a"}}
}

func scalarSpec() nd.Spec {
	s := cmpSpec()
	s.Kinds &^= nd.KArray | nd.KObject
	s.Depth = 0
	return s
}

// sign3 is -1 / 0 / +1 from "less" and "equal" without forking the path.
func sign3(lt, eq bool) int64 { return nd.Ite(lt, -1, nd.Ite(eq, 0, 1)) }

// refCompare is the documented order: (comparable, sign). null is handled
// by the caller. It is written without data-dependent branches, so that under
// the engine the sign is one term and the final assertion one query.
func refCompare(a, b any) (bool, int64) {
	switch x := a.(type) {
	case bool:
		y, ok := b.(bool)
		if !ok {
			return false, 0
		}
		return true, sign3(nd.All(!x, y), x == y)
	case string:
		y, ok := b.(string)
		if !ok {
			return false, 0
		}
		return true, sign3(x < y, x == y)
	}
	an, ai, av, af := numView(a)
	bn, bi, bv, bf := numView(b)
	if !an || !bn {
		return false, 0
	}
	switch {
	case ai && bi:
		return true, sign3(av < bv, av == bv)
	case ai:
		return true, nd.CmpIntFloat(av, bf)
	case bi:
		return true, -nd.CmpIntFloat(bv, af)
	}
	return true, sign3(af < bf, af == bf)
}

func applyRef(opi int, c int64) bool {
	switch opi {
	case 0:
		return c == 0
	case 1:
		return c != 0
	case 2:
		return c < 0
	case 3:
		return c <= 0
	case 4:
		return c > 0
	}
	return c >= 0
}

// refItems: expected outcome of `x op y` for two items: unknown (concrete,
// it depends on kinds only) or the truth value (possibly symbolic).
func refItems(opi int, a, b any) (unknown bool, truth bool) {
	if a == nil || b == nil {
		if a == nil && b == nil {
			return false, applyRef(opi, 0)
		}
		return false, opi == 1 // null vs non-null: only != is true
	}
	ok, c := refCompare(a, b)
	if !ok {
		return true, false
	}
	return false, applyRef(opi, c)
}

// agrees: the observed outcome equals the expected one (single term).
func agrees(got int, unknown, truth bool) bool {
	if unknown {
		return got == oU
	}
	if got != oT && got != oF {
		return false
	}
	return (got == oT) == truth
}

func b2o(b bool) int {
	if b {
		return oT
	}
	return oF
}

func kindName(v any) string {
	switch v.(type) {
	case nil:
		return "null"
	case bool:
		return "bool"
	case int64:
		return "int64"
	case float64:
		return "float64"
	case string:
		return "string"
	case []any:
		return "array"
	case map[string]any:
		return "object"
	}
	if _, isInt, _, _ := numView(v); isInt {
		return "number-int"
	}
	return "number-float"
}

// C12_Pair: every operator on every pair of scalar items (all kinds and
// numeric representations) against the documented order.
func C12_Pair() {
	mode := ""
	if nd.Thorough() {
		// scalar comparison does not depend on the mode; both are run in the thorough tier
		mode = modePrefix()
	}
	opi := nd.Choice(6)
	a, b := nd.JSON(scalarSpec()), nd.JSON(scalarSpec())
	vars := exec.Vars{"a": a, "b": b}
	got := evalPred(mode+"$a "+cmpOps[opi]+" $b", vars)
	unk, truth := refItems(opi, a, b)
	tag := "C12/" + kindName(a) + "," + kindName(b)
	nd.Cover(tag)
	nd.Assert(agrees(got, unk, truth), tag+"/"+cmpOps[opi])
}

// C12_Dual: operator dualities as relations between executions of the real
// code: a op b <=> b op' a; != is the negation of ==; <= and >= are the
// unions with ==.
func C12_Dual() {
	mode := modePrefix()
	opi := nd.Choice(6)
	a, b := nd.JSON(scalarSpec()), nd.JSON(scalarSpec())
	vars := exec.Vars{"a": a, "b": b}
	got := evalPred(mode+"$a "+cmpOps[opi]+" $b", vars)
	tag := "C12/dual/" + kindName(a) + "," + kindName(b)
	dual := []int{0, 1, 4, 5, 2, 3}
	rev := evalPred(mode+"$b "+cmpOps[dual[opi]]+" $a", vars)
	nd.Assert(rev == got, tag+"/duality")
	if got == oU {
		return
	}
	switch opi {
	case 1:
		eq := evalPred(mode+"$a == $b", vars)
		nd.Assert((got == oT) == (eq == oF), tag+"/ne-is-not-eq")
	case 3:
		eq := evalPred(mode+"$a == $b", vars)
		lt := evalPred(mode+"$a < $b", vars)
		nd.Assert((got == oT) == (lt == oT || eq == oT), tag+"/le-is-union")
	case 5:
		eq := evalPred(mode+"$a == $b", vars)
		gt := evalPred(mode+"$a > $b", vars)
		nd.Assert((got == oT) == (gt == oT || eq == oT), tag+"/ge-is-union")
	}
}

func tripleSpec() nd.Spec {
	if nd.Thorough() {
		return nd.Spec{Kinds: nd.KFloat | nd.KNumber | nd.KInt64 | nd.KString, StrLen: 2}
	}
	return nd.Spec{Kinds: nd.KFloat | nd.KInt64 | nd.KString, StrLen: 1}
}

// C12_TransLt / C12_TransEq: transitivity of < and of == over triples, as a
// relation between three executions of the real code.
func C12_TransLt() {
	a, b, c := nd.JSON(tripleSpec()), nd.JSON(tripleSpec()), nd.JSON(tripleSpec())
	vars := exec.Vars{"a": a, "b": b, "c": c}
	tag := "C12/triple/" + kindName(a) + "," + kindName(b) + "," + kindName(c)
	if evalPred("$a < $b", vars) != oT {
		return
	}
	if evalPred("$b < $c", vars) != oT {
		return
	}
	nd.Assert(evalPred("$a < $c", vars) == oT, tag+"/lt-transitive")
}

func C12_TransEq() {
	a, b, c := nd.JSON(tripleSpec()), nd.JSON(tripleSpec()), nd.JSON(tripleSpec())
	vars := exec.Vars{"a": a, "b": b, "c": c}
	tag := "C12/triple/" + kindName(a) + "," + kindName(b) + "," + kindName(c)
	if evalPred("$a == $b", vars) != oT {
		return
	}
	if evalPred("$b == $c", vars) != oT {
		return
	}
	nd.Assert(evalPred("$a == $c", vars) == oT, tag+"/eq-transitive")
}

// C12_Trichotomy: for comparable items exactly one of <, ==, > holds.
func C12_Trichotomy() {
	a, b := nd.JSON(tripleSpec()), nd.JSON(tripleSpec())
	vars := exec.Vars{"a": a, "b": b}
	ok, _ := refCompare(a, b)
	if !ok {
		return
	}
	tag := "C12/trichotomy/" + kindName(a) + "," + kindName(b)
	n := 0
	for _, op := range []string{"<", "==", ">"} {
		r := evalPred("$a "+op+" $b", vars)
		nd.Assert(r == oT || r == oF, tag+"/comparable-pair-must-not-be-unknown")
		if r == oT {
			n++
		}
	}
	nd.Assert(n == 1, tag)
}

// C12_Seq: sequences: lax is existential (unknown only if no pair is true
// and some pair is incomparable), strict makes any incomparable pair unknown;
// in lax mode array operands are unwrapped one level.
func C12_Seq() {
	strict := nd.Choice(2) == 1
	mode := ""
	if strict {
		mode = "strict "
	}
	opi := nd.Choice(6)
	seqSpec := nd.Spec{Kinds: nd.KNull | nd.KFloat | nd.KString | nd.KArray, Depth: 1, Width: 2, StrLen: 1}
	a, b := nd.JSON(seqSpec), nd.JSON(nd.Spec{Kinds: nd.KNull | nd.KFloat | nd.KString, StrLen: 1})
	vars := exec.Vars{"a": a, "b": b}
	got := evalPred(mode+"$a "+cmpOps[opi]+" $b", vars)
	seq := []any{a}
	if arr, ok := a.([]any); ok && !strict {
		seq = arr
	}
	// outcome per pair: unknown is decided by kinds; truth may be symbolic
	anyU := false
	var truths []bool
	for _, x := range seq {
		u, t := refItems(opi, x, b)
		if u {
			anyU = true
		} else {
			truths = append(truths, t)
		}
	}
	anyT := nd.Any(truths...)
	var ok bool
	if strict {
		if anyU {
			ok = got == oU
		} else {
			ok = got != oU && (got == oT) == anyT
		}
	} else {
		if anyU {
			// true if some pair is true, otherwise unknown
			ok = (got == oT) == anyT && (got == oT || got == oU)
		} else {
			ok = got != oU && (got == oT) == anyT
		}
	}
	tag := "C12/seq/" + mode + kindName(a)
	nd.Cover(tag)
	nd.Assert(ok, tag)
}

// C12_StartsWith: true exactly for string prefixes, unknown for non-strings.
func C12_StartsWith() {
	l := 2
	if nd.Thorough() {
		l = 3
	}
	sp := nd.Spec{Kinds: nd.KNull | nd.KFloat | nd.KString, StrLen: l}
	a, b := nd.JSON(sp), nd.JSON(sp)
	vars := exec.Vars{"a": a, "b": b}
	got := evalPred(modePrefix()+"$a starts with $b", vars)
	as, aok := a.(string)
	bs, bok := b.(string)
	tag := "C12/starts-with/" + kindName(a) + "," + kindName(b)
	if !aok || !bok {
		nd.Assert(got == oU, tag)
		return
	}
	nd.Assert(got == b2o(strings.HasPrefix(as, bs)), tag)
}

var _ = reg("C12_Strings", C12_Strings)

// anyRune: a symbolic Unicode scalar value (not NUL) as UTF-8 of 1..4 bytes:
// the whole BMP as in oneRune, and the supplementary planes with a forked
// lead byte and three symbolic continuation bytes.
func anyRune() string {
	if nd.Choice(2) == 0 {
		return oneRune()
	}
	leads := []byte{0xF0, 0xF4}
	if nd.Thorough() {
		leads = []byte{0xF0, 0xF1, 0xF2, 0xF3, 0xF4}
	}
	s := string([]byte{leads[nd.Choice(len(leads))]}) + nd.StringN(3)
	nd.Assume(utf8.ValidString(s))
	nd.Assume(utf8.RuneCountInString(s) == 1)
	return s
}

// byteOrder: three-way comparison of a and b as byte sequences, spelt out.
func byteOrder(a, b string) int {
	n := len(a)
	if len(b) < n {
		n = len(b)
	}
	for i := 0; i < n; i++ {
		if a[i] != b[i] {
			if a[i] < b[i] {
				return -1
			}
			return 1
		}
	}
	switch {
	case len(a) < len(b):
		return -1
	case len(a) > len(b):
		return 1
	}
	return 0
}

// C12_Strings: strings compare by byte order for every pair of code points
// (1..4 byte UTF-8, symbolic) after a common prefix and before a suffix: the
// six operators on variables, and a string literal in the path against a
// document string.
func C12_Strings() {
	pre := []string{"", "a"}[nd.Choice(2)]
	sufA := []string{"", "b"}[nd.Choice(2)]
	a := pre + anyRune() + sufA
	b := pre + anyRune()
	opi := nd.Choice(6)
	want := applyRef(opi, int64(byteOrder(a, b)))
	var got int
	if nd.Choice(2) == 0 {
		got = evalPred("$a "+cmpOps[opi]+" $b", exec.Vars{"a": a, "b": b})
	} else {
		// the right operand as a literal built by the ast constructors
		cmp := []ast.BinaryOperator{ast.BinaryEqual, ast.BinaryNotEqual, ast.BinaryLess, ast.BinaryLessOrEqual, ast.BinaryGreater, ast.BinaryGreaterOrEqual}[opi]
		tree, err := ast.New(true, true, ast.NewBinary(cmp, ast.NewConst(ast.ConstRoot), ast.NewString(b)))
		if err != nil {
			return
		}
		r, qerr := path.New(tree).Query(bg, a)
		got = oBad
		if qerr == nil && len(r) == 1 {
			if v, ok := r[0].(bool); ok {
				got = b2o(v)
			}
		}
	}
	nd.Assert(agrees(got, false, want), "C12/strings/byte-order "+cmpOps[opi])
}
