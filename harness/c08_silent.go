//go:build verif

package harness

import (
	"github.com/theory/sqljson/path"
	"github.com/theory/sqljson/path/exec"
	"harness/nd"
)

var _ = reg("C08_Pool", C08_Pool)
var _ = reg("C08_NoLeak", C08_NoLeak)

// C08_Pool: the run with WithSilent against the run without, four entry points.
func C08_Pool() {
	src, doc, vars := poolCase()
	p := parse(src)
	v := exec.WithVars(vars)
	tag := "C08"
	nd.Cover(tag + "/" + src)
	perm := refPermutable(p.String())
	switch nd.Choice(4) {
	case 0:
		a, aerr := p.Query(bg, doc, v)
		if errClass(aerr) == eHard {
			// the non-suppressible errors are the listed ones; of those the
			// pool can raise: unknown variable, decimal precision (0) or scale (2000)
			nd.Assert(contains(src, "$missing") || contains(src, "2000") || contains(src, "decimal(0)"), tag+"/Query/non-suppressible-error-not-among-the-listed")
		}
		b, berr := p.Query(bg, doc, v, exec.WithSilent())
		nd.Assert(berr == nil || !isVerbose(berr), tag+"/Query/silent-returns-suppressible-error")
		switch errClass(aerr) {
		case eNone:
			nd.Assert(berr == nil, tag+"/Query/silent-errs-though-verbose-succeeds")
			if berr == nil {
				nd.Assert(sameSeq(a, b, perm), tag+"/Query/silent-changes-successful-result")
			}
		case eSupp:
			nd.Assert(berr == nil, tag+"/Query/suppressible-error-not-suppressed")
			if berr == nil {
				// the items found before the failure: the partial result of the
				// stateless depth-first reference
				want, ok := itemsBeforeFailure(p, doc, vars)
				if ok {
					nd.Assert(sameSeq(b, want, false), tag+"/Query/silent-items-differ-from-items-before-failure")
				}
			}
		case eHard:
			nd.Assert(berr != nil && hardErr(berr), tag+"/Query/hard-error-suppressed")
		}
	case 1:
		a, aerr := p.First(bg, doc, v)
		b, berr := p.First(bg, doc, v, exec.WithSilent())
		nd.Assert(berr == nil || !isVerbose(berr), tag+"/First/silent-returns-suppressible-error")
		switch errClass(aerr) {
		case eNone:
			nd.Assert(berr == nil, tag+"/First/silent-errs-though-verbose-succeeds")
			if berr == nil && !perm {
				nd.Assert(sameItem(a, b), tag+"/First/silent-changes-successful-result")
			}
		case eSupp:
			nd.Assert(berr == nil, tag+"/First/suppressible-error-not-suppressed")
			if berr == nil {
				want, ok := itemsBeforeFailure(p, doc, vars)
				if ok {
					if len(want) == 0 {
						nd.Assert(b == nil, tag+"/First/silent-item-though-none-before-failure")
					} else {
						nd.Assert(sameItem(b, want[0]), tag+"/First/silent-item-differs-from-first-before-failure")
					}
				}
			}
		case eHard:
			nd.Assert(berr != nil && hardErr(berr), tag+"/First/hard-error-suppressed")
		}
	case 2:
		a, aerr := p.Exists(bg, doc, v)
		b, berr := p.Exists(bg, doc, v, exec.WithSilent())
		nd.Assert(berr == nil || !isVerbose(berr), tag+"/Exists/silent-returns-suppressible-error")
		switch {
		case aerr == nil:
			nd.Assert(berr == nil && a == b, tag+"/Exists/silent-changes-successful-result")
		case aerr == exec.NULL || isVerbose(aerr):
			nd.Assert(berr == nil || berr == exec.NULL, tag+"/Exists/suppressible-error-not-suppressed")
		default:
			nd.Assert(berr != nil && hardErr(berr), tag+"/Exists/hard-error-suppressed")
		}
	case 3:
		a, aerr := p.Match(bg, doc, v)
		b, berr := p.Match(bg, doc, v, exec.WithSilent())
		nd.Assert(berr == nil || !isVerbose(berr), tag+"/Match/silent-returns-suppressible-error")
		switch {
		case aerr == nil:
			nd.Assert(berr == nil && a == b, tag+"/Match/silent-changes-successful-result")
		case aerr == exec.NULL || isVerbose(aerr):
			nd.Assert(berr == nil || berr == exec.NULL, tag+"/Match/suppressible-error-not-suppressed")
		default:
			nd.Assert(berr != nil && hardErr(berr), tag+"/Match/hard-error-suppressed")
		}
	}
}

// itemsBeforeFailure: the partial result of the stateless depth-first
// reference evaluator when it fails with a suppressible error. ok is false
// where the reference leaves the result open, where object member order
// decides which items come before the failure, and on the inputs touched by
// the known finding C14/null-element-dropped (reported there, not here).
func itemsBeforeFailure(p *path.Path, doc any, vars exec.Vars) ([]any, bool) {
	want, werr, open, perm := refQuery(p.AST, doc, vars)
	if open || perm || werr != eSupp {
		return nil, false
	}
	w2, e2, _, _ := refQueryOpt(p.AST, doc, vars, true)
	if e2 != werr || !sameSeq(want, w2, false) {
		nd.Cover("C08/items-before-failure/known-finding-input")
		return nil, false
	}
	return want, true
}

var leakPaths = []string{
	"strict $ ? (@.a == 1).b",
	"strict $[*] ? (@ > 0).a",
	"strict $ ? (exists(@.a)).b.c",
	"strict ($.a == 1).b",
	"strict $ ? (@.x == 1 || @.a == 1).b",
	"strict $ ? ((@.x == 1) is unknown).b",
	"strict $.a ? (@ starts with \"x\")[5]",
	"strict $ ? (@.a like_regex \"^x\").b",
	"strict $[*] ? (@ ? (@.x == 1).y == 2).a",
	"strict $ ? (@.a + 1 == 2).b",
	"$ ? (@.a == 1).b + 1",
	"$[*] ? (@ > 0).double()",
	"$ ? (@.a == 1).a.integer()",
	// the right operand fails for an earlier item, a later item passes the
	// filter and fails the step after it
	"strict $[*] ? (@.a == @.b).c",
	"strict $[*] ? (@.a > @.b[1]).c",
	"$[*] ? (@.a < @.b.double()).c.double()",
	"strict $[*] ? (exists(@.b) && @.a == 1).c",
}

// C08_NoLeak: the suppression used inside predicates never leaks: after a
// filter or predicate the surrounding path still reports its own errors
// (error class equals the stateless reference).
func C08_NoLeak() {
	src := leakPaths[nd.Choice(len(leakPaths))]
	var doc any
	if nd.Choice(2) == 0 {
		doc = nd.JSON(poolDocSpec())
	} else {
		// two items, so that the failure of one can reach the other
		mk := func() any {
			m := map[string]any{"a": nd.JSON(nd.Spec{Kinds: nd.KFloat})}
			if nd.Choice(2) == 1 {
				m["b"] = nd.JSON(nd.Spec{Kinds: nd.KFloat | nd.KString | nd.KArray, Depth: 1, Width: 1, StrLen: 1, ASCII: true})
			}
			if nd.Choice(2) == 1 {
				m["c"] = nd.JSON(nd.Spec{Kinds: nd.KFloat | nd.KString, StrLen: 1, ASCII: true})
			}
			return m
		}
		doc = []any{mk(), mk()}
	}
	p := parse(src)
	_, gerr := p.Query(bg, doc)
	_, werr, open, _ := refQuery(p.AST, doc, nil)
	if open {
		nd.Cover("C08/no-leak/open " + src)
		return
	}
	nd.Cover("C08/no-leak " + src)
	nd.Assert(errClass(gerr) == werr, "C08/no-leak "+src)
}

var _ = reg("C08_Partial", C08_Partial)

// paths that hand items on one at a time and can fail at a later item, at
// every kind of producer: wildcards, subscript lists, methods and unary
// operators over sequences, operands of arithmetic and comparisons
var partialPaths = []string{
	"strict $[*].a", "strict $[0, 1].a", "strict $[0 to 1].a", "$[*].integer()", "strict $[*].double()", "strict -$[*]",
	"strict 1 + $[*].double()", "strict $[*].double() + 1", "strict $.*.a", "$[*].keyvalue().value", "strict $[*].size()",
	"strict $[*] ? (@.a > 0).b", "strict $[*].a.b", "$[*].abs().boolean()", "strict $[1, 0][0]",
}

// C08_Partial: where the verbose run fails with a suppressible error after
// some items were found, the silent Query returns exactly those items and
// First the first of them; silent Exists answers true only if an item was
// found before the failure and is NULL otherwise. Two-item documents, the
// reference being the partial result of the depth-first reference evaluator.
func C08_Partial() {
	src := partialPaths[nd.Choice(len(partialPaths))]
	es := nd.Spec{Kinds: nd.KFloat | nd.KString | nd.KArray | nd.KObject, Depth: 1, Width: 1, StrLen: 1, Keys: []string{"a", "b"}, ASCII: true}
	var doc any
	if nd.Choice(2) == 0 {
		doc = []any{nd.JSON(es), nd.JSON(es)}
	} else {
		doc = map[string]any{"a": nd.JSON(es), "b": nd.JSON(es)}
	}
	p := parse(src)
	tag := "C08/partial " + src
	_, verr := p.Query(bg, doc)
	if errClass(verr) != eSupp {
		nd.Cover(tag + "/no-suppressible-failure")
		return
	}
	got, gerr := p.Query(bg, doc, exec.WithSilent())
	nd.Assert(gerr == nil, tag+"/suppressible-error-not-suppressed")
	want, ok := itemsBeforeFailure(p, doc, nil)
	if !ok || gerr != nil {
		return
	}
	nd.Assert(sameSeq(got, want, false), tag+"/silent-items-differ-from-items-before-failure")
	f, ferr := p.First(bg, doc, exec.WithSilent())
	nd.Assert(ferr == nil, tag+"/First/suppressible-error-not-suppressed")
	if ferr == nil {
		if len(want) == 0 {
			nd.Assert(f == nil, tag+"/First/item-though-none-before-failure")
		} else {
			nd.Assert(sameItem(f, want[0]), tag+"/First/not-the-first-item-before-failure")
		}
	}
	ex, eerr := p.Exists(bg, doc, exec.WithSilent())
	if len(want) == 0 {
		nd.Assert(eerr == exec.NULL && !ex, tag+"/Exists/not-NULL-though-nothing-established")
	} else if p.IsStrict() {
		// strict mode evaluates completely: the failure makes it NULL
		nd.Assert(eerr == exec.NULL && !ex, tag+"/Exists/strict-not-NULL-after-failure")
	} else {
		nd.Assert(eerr == nil && ex, tag+"/Exists/lax-not-true-though-an-item-precedes-the-failure")
	}
}
