//go:build verif

package harness

import (
	"github.com/theory/sqljson/path/exec"
	"harness/nd"
)

var _ = reg("C01_Pool", C01_Pool)
var _ = reg("C01_Gen", C01_Gen)
var _ = reg("C01_PredicateCheck", C01_PredicateCheck)

// conform compares Query with the reference evaluator; results that are
// exactly what the reference gives under a listed known finding get that
// finding's label.
func conform(tag, src string, doc any, vars exec.Vars, opts ...exec.Option) {
	p := parse(src)
	o := append([]exec.Option{exec.WithVars(vars)}, opts...)
	got, gerr := p.Query(bg, doc, o...)
	want, werr, open, perm := refQuery(p.AST, doc, vars)
	if open {
		nd.Cover(tag + "/open")
		return
	}
	nd.Cover(tag)
	ge := errClass(gerr)
	if ge == werr && (werr != eNone || sameSeq(got, want, perm)) {
		nd.Assert(true, tag)
		return
	}
	// known findings, each under its own label
	if w, e, op, pm := refQueryOpt2(p.AST, doc, vars, true, false); !op && ge == e && (e != eNone || sameSeq(got, w, pm)) {
		nd.Assert(false, "C01/null-element-dropped")
		return
	}
	if w, e, op, pm := refQueryOpt2(p.AST, doc, vars, false, true); !op && ge == e && (e != eNone || sameSeq(got, w, pm)) {
		nd.Assert(false, "C01/is-unknown-swallows-unknown-variable")
		return
	}
	if w, e, op, pm := refQueryOpt2(p.AST, doc, vars, true, true); !op && ge == e && (e != eNone || sameSeq(got, w, pm)) {
		nd.Assert(false, "C01/null-element-dropped")
		return
	}
	// Under a known finding's model the evaluation takes another course (a
	// null element was subscripted, or `is unknown` met an unknown variable)
	// and reaches a rule the reference leaves open: the input lies in the
	// region of that finding, and nothing further can be attributed here.
	for _, sw := range [][2]bool{{true, false}, {false, true}, {true, true}} {
		if _, _, op, _ := refQueryOpt2(p.AST, doc, vars, sw[0], sw[1]); op {
			nd.Cover(tag + "/open-under-known-finding")
			return
		}
	}
	if ge != werr {
		nd.Assert(false, tag+"/error-class")
		return
	}
	nd.Assert(false, tag+"/items")
}

// C01_Pool: every pool path, lax and strict, against the reference
// evaluator: items, order (object member order aside) and error class.
func C01_Pool() {
	src := modePrefix() + poolPaths[nd.Choice(len(poolPaths))]
	// numbers as float64 in the document and float64 / int64 in variables;
	// the cross-representation rules are decided in C12 / C13 / C16
	kinds := nd.KNull | nd.KBool | nd.KFloat | nd.KString | nd.KArray | nd.KObject
	w := 1
	if nd.Thorough() {
		kinds |= nd.KNumber
		w = 2
	}
	doc := nd.JSON(nd.Spec{Kinds: kinds, Depth: 2, Width: w, StrLen: 1, Keys: []string{"a", "b"}, ASCII: true})
	vars := exec.Vars{"i": nd.JSON(nd.Spec{Kinds: nd.KFloat | nd.KInt64}), "v": nd.JSON(nd.Spec{Kinds: nd.KNull | nd.KFloat | nd.KString | nd.KArray, Depth: 1, Width: 1, StrLen: 1, ASCII: true})}
	conform("C01 "+src, src, doc, vars)
}

var genTails = []string{
	"", " + 1", " * $i", " / 2", " == 1", " > $i", " != null", ".type()", ".size()", ".abs()", ".double()", ".integer()", ".boolean()",
	" ? (@ > 1)", " ? (@.a == $v)", " ? (exists(@.b))", " ? (@.a > 1 && @.b > 1)", " ? ((@.a == 1) is unknown)", "[last]", "[0 to $i]",
	" - $i", " < \"b\"", ".floor()", ".bigint()", " ? (@ starts with \"a\")", " ? (!(@ == 1))", "[0]", "[$i]",
	" ? (@.a ? (@ > 1) > 0)", " ? (@[*] > 1).size()", " == $v", " starts with $v",
}

var genHeads = []string{"$", "-$", "$v", "1", "\"a\"", "null", "true"}

// C01_Gen: generated paths: a head, up to two accessor steps, and a tail
// (arithmetic, comparison, method, filter, subscript), lax and strict.
func C01_Gen() {
	nh, maxSteps := 3, 3
	if nd.Thorough() {
		nh, maxSteps = len(genHeads), 3
	}
	head := genHeads[nd.Choice(nh)]
	steps := ""
	n := nd.Choice(maxSteps)
	for i := 0; i < n; i++ {
		steps += compSteps[nd.Choice(9)]
	}
	nt := 32
	if nd.Thorough() {
		nt = len(genTails)
	}
	tail := genTails[nd.Choice(nt)]
	src := head + steps + tail
	if head != "$" && head != "$v" && steps != "" {
		if head == "-$" {
			src = "-$" + steps + tail
		} else {
			src = "(" + head + ")" + steps + tail
		}
	}
	mode := modePrefix()
	kinds := nd.KNull | nd.KFloat | nd.KArray | nd.KObject
	if nd.Thorough() {
		kinds |= nd.KString
	}
	w := 1
	if nd.Thorough() {
		w = 2
	}
	doc := nd.JSON(nd.Spec{Kinds: kinds, Depth: 2, Width: w, StrLen: 1, Keys: []string{"a", "b"}, ASCII: true})
	ik := nd.KFloat
	if nd.Thorough() {
		ik |= nd.KInt64
	}
	vars := exec.Vars{"i": nd.JSON(nd.Spec{Kinds: ik}), "v": nd.JSON(nd.Spec{Kinds: nd.KNull | nd.KFloat | nd.KString, StrLen: 1, ASCII: true})}
	conform("C01/gen "+mode+src, mode+src, doc, vars)
}

// C01_PredicateCheck: a predicate check expression returns exactly one of
// true, false or null (or a non-suppressible error), whatever the document.
func C01_PredicateCheck() {
	c := filterConds[nd.Choice(len(filterConds))][1]
	doc := nd.JSON(filterDocSpec())
	r, err := parse(modePrefix() + c).Query(bg, doc)
	if err != nil {
		nd.Assert(hardErr(err), "C01/predicate-check/suppressible-error-escapes "+c)
		return
	}
	nd.Assert(len(r) == 1, "C01/predicate-check/not-a-single-value "+c)
	if len(r) == 1 {
		_, isBool := r[0].(bool)
		nd.Assert(isBool || r[0] == nil, "C01/predicate-check/not-true-false-or-null "+c)
	}
}

var _ = reg("C01_Wide", C01_Wide)

// C01_Wide: sequences of two items: documents with two elements / members,
// so that the outcome can depend on a later item of an iteration, and each
// path also under exists(), which runs the executor's early-exit code inside
// a collecting Query.
func C01_Wide() {
	base := laterPaths[nd.Choice(len(laterPaths))]
	var src string
	switch nd.Choice(3) {
	case 0:
		src = base
	case 1:
		src = "exists(" + base + ")"
	default:
		src = "$ ? (exists(" + replaceRoot(base) + "))"
	}
	src = modePrefix() + src
	var doc any
	if nd.Thorough() {
		doc = nd.JSON(nd.Spec{Kinds: nd.KFloat | nd.KArray | nd.KObject, Depth: 2, Width: 2, Keys: []string{"a", "b"}})
	} else {
		// exactly two entries at the top, one level below them
		es := nd.Spec{Kinds: nd.KFloat | nd.KArray | nd.KObject, Depth: 1, Width: 1, Keys: []string{"a", "b"}}
		if nd.Choice(2) == 0 {
			doc = []any{nd.JSON(es), nd.JSON(es)}
		} else {
			doc = map[string]any{"a": nd.JSON(es), "b": nd.JSON(es)}
		}
	}
	conform("C01/wide "+src, src, doc, nil)
}

// replaceRoot rewrites the leading $ of a pool path to @ ("-$[*]" included).
func replaceRoot(s string) string {
	for i := 0; i < len(s); i++ {
		if s[i] == '$' {
			return s[:i] + "@" + s[i+1:]
		}
	}
	return s
}

var _ = reg("C01_SeqPredicates", C01_SeqPredicates)

var seqPredPaths = []string{
	"$.**{1} ? (@[*] > 1)", "$.** ? (@[*] > 1)", "$.* ? (@[*] > 1)", "$[*] ? (@[*] > 1)", "$.**{1} ? ((@[*] > 1) is unknown)",
	"$.**{1} ? (@[*] starts with \"a\")", "$.**{1} ? (@[*] like_regex \"^a\")", "$.**{1} ? (@[*] == @[*])", "$.a[*] > 1", "$.**{1}[*] > 1",
	"$.**{1} ? (exists(@[*] ? (@ > 1)))", "$.**{1} ? (!(@[*] > 1))", "$.**{0 to 1} ? (@[*] >= 1 && @[*] < 1)",
}

// C01_SeqPredicates: predicates whose operands are sequences of two items of
// mixed kinds, directly and below wildcards and .**: in lax mode some pair
// satisfies; in strict mode any incomparable pair makes the predicate
// unknown - also below .**, where only structural errors are skipped.
func C01_SeqPredicates() {
	src := modePrefix() + seqPredPaths[nd.Choice(len(seqPredPaths))]
	leaf := nd.Spec{Kinds: nd.KNull | nd.KFloat | nd.KString, StrLen: 1, ASCII: true}
	arr := []any{nd.JSON(leaf), nd.JSON(leaf)}
	var doc any
	if nd.Choice(2) == 0 {
		doc = map[string]any{"a": arr}
	} else {
		doc = []any{arr}
	}
	conform("C01/seq "+src, src, doc, nil)
}
