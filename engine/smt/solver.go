package smt

import (
	"bufio"
	"fmt"
	"io"
	"math"
	"os"
	"os/exec"
	"strconv"
	"strings"
	"time"
)

type Result int

const (
	Unsat Result = iota
	Sat
	Unknown
)

func (r Result) String() string { return [...]string{"unsat", "sat", "unknown"}[r] }

type Stats struct {
	Queries  int
	SatN     int
	UnsatN   int
	UnknownN int
	Errors   int
	Seconds  float64
	Fallback int // queries answered by a portfolio solver after the primary said unknown
	ByTag    map[string]TagStat
}

type TagStat struct {
	N       int
	Seconds float64
	Unknown int
}

func (s *Stats) Add(o Stats) {
	s.Queries += o.Queries
	s.SatN += o.SatN
	s.UnsatN += o.UnsatN
	s.UnknownN += o.UnknownN
	s.Errors += o.Errors
	s.Seconds += o.Seconds
	s.Fallback += o.Fallback
	for k, v := range o.ByTag {
		if s.ByTag == nil {
			s.ByTag = map[string]TagStat{}
		}
		t := s.ByTag[k]
		t.N += v.N
		t.Seconds += v.Seconds
		t.Unknown += v.Unknown
		s.ByTag[k] = t
	}
}

// proc is one solver process speaking SMT-LIB2 over a pipe.
type proc struct {
	name string
	argv []string
	cmd  *exec.Cmd
	in   io.WriteCloser
	out  *bufio.Reader
	pre  string // options re-sent after every (reset)
}

func (p *proc) start() error {
	p.cmd = exec.Command(p.argv[0], p.argv[1:]...)
	var err error
	p.in, err = p.cmd.StdinPipe()
	if err != nil {
		return err
	}
	o, err := p.cmd.StdoutPipe()
	if err != nil {
		return err
	}
	p.cmd.Stderr = nil
	p.out = bufio.NewReaderSize(o, 1<<16)
	return p.cmd.Start()
}

func (p *proc) stop() {
	if p.cmd != nil && p.cmd.Process != nil {
		p.in.Close()
		p.cmd.Process.Kill()
		p.cmd.Wait()
		p.cmd = nil
	}
}

const marker = "<<gosymx-done>>"

// run sends text and returns the output lines up to the echo marker.
func (p *proc) run(text string, wall time.Duration) ([]string, error) {
	if p.cmd == nil {
		if err := p.start(); err != nil {
			return nil, err
		}
	}
	if _, err := io.WriteString(p.in, text+"\n(echo \""+marker+"\")\n"); err != nil {
		p.stop()
		return nil, err
	}
	type res struct {
		lines []string
		err   error
	}
	ch := make(chan res, 1)
	go func() {
		var lines []string
		for {
			l, err := p.out.ReadString('\n')
			if err != nil {
				ch <- res{lines, err}
				return
			}
			l = strings.TrimSpace(l)
			if strings.Trim(l, "\"") == marker {
				ch <- res{lines, nil}
				return
			}
			if l != "" {
				lines = append(lines, l)
			}
		}
	}()
	select {
	case r := <-ch:
		if r.err != nil {
			p.stop()
		}
		return r.lines, r.err
	case <-time.After(wall):
		p.stop()
		return nil, fmt.Errorf("solver %s: wall timeout", p.name)
	}
}

// Solver is a session over one primary incremental process plus optional
// one-shot portfolio processes used when the primary answers unknown.
type Solver struct {
	primary   *proc
	portfolio []*proc
	TimeoutMS int
	Stats     Stats

	ctx      *Ctx
	asserted []*Term // level-0 assertions of the current path
	sent     int     // how many of asserted were sent to primary
	defined  map[int]bool
	declVars map[string]bool
	declFuns map[string]bool
	LastErr  string
	Fresh    bool   // every query from scratch (no push/pop): lets z3 use its tactic pipeline
	Tag      string // attribution of the next queries (assertion label or "branch")
}

func NewSolver(timeoutMS int, portfolio bool) *Solver {
	s := &Solver{TimeoutMS: timeoutMS, Fresh: os.Getenv("GOSYMX_FRESH") != "0"}
	mk := func(name string) *proc {
		switch name {
		case "cvc5":
			return &proc{name: "cvc5", argv: []string{"cvc5", "--lang=smt2", "--incremental", "--produce-models", fmt.Sprintf("--tlimit-per=%d", timeoutMS)}, pre: "(set-logic ALL)\n"}
		default:
			return &proc{name: name, argv: []string{name, "-in"}, pre: fmt.Sprintf("(set-option :timeout %d)\n", timeoutMS)}
		}
	}
	order := []string{"z3", "z3-new", "cvc5"}
	if v := os.Getenv("GOSYMX_SOLVERS"); v != "" {
		order = strings.Split(v, ",")
	}
	s.primary = mk(order[0])
	if portfolio {
		for _, n := range order[1:] {
			s.portfolio = append(s.portfolio, mk(n))
		}
	}
	return s
}

func (s *Solver) Close() {
	s.primary.stop()
	for _, p := range s.portfolio {
		p.stop()
	}
}

// Begin starts a new path: all previous assertions are dropped.
func (s *Solver) Begin(ctx *Ctx) {
	s.ctx = ctx
	s.asserted = s.asserted[:0]
	s.sent = -1 // primary needs a reset before first use
	s.defined = map[int]bool{}
	s.declVars = map[string]bool{}
	s.declFuns = map[string]bool{}
}

// Asserted returns the level-0 assertions of the current path.
func (s *Solver) Asserted() []*Term { return s.asserted }

func (s *Solver) Assert(t *Term) {
	if v, ok := t.BoolVal(); ok && v {
		return
	}
	s.asserted = append(s.asserted, t)
}

// defs appends to sb the declarations/definitions needed to mention t, and
// returns the name by which t can be referred to.
func (s *Solver) defs(sb *strings.Builder, t *Term, defined map[int]bool, dv, df map[string]bool) string {
	if t.Leaf() {
		if t.Op == OVar && !dv[t.Name] {
			dv[t.Name] = true
			fmt.Fprintf(sb, "(declare-const %s %s)\n", t.Name, t.Sort)
		}
		return t.Head(nil)
	}
	name := "t" + strconv.Itoa(t.ID)
	if defined[t.ID] {
		return name
	}
	ch := make([]string, len(t.Args))
	for i, a := range t.Args {
		ch[i] = s.defs(sb, a, defined, dv, df)
	}
	if t.Op == OApply && !df[t.Name] {
		df[t.Name] = true
		fd := s.ctx.Funcs[t.Name]
		as := make([]string, len(fd.Args))
		for i, a := range fd.Args {
			as[i] = a.String()
		}
		fmt.Fprintf(sb, "(declare-fun %s (%s) %s)\n", t.Name, strings.Join(as, " "), fd.Ret)
	}
	defined[t.ID] = true
	fmt.Fprintf(sb, "(define-fun %s () %s %s)\n", name, t.Sort, t.Head(ch))
	return name
}

func parseResult(lines []string) (Result, string) {
	res := Unknown
	errs := ""
	got := false
	for _, l := range lines {
		switch {
		case strings.HasPrefix(l, "(error"):
			errs += l + " "
		case l == "sat":
			res, got = Sat, true
		case l == "unsat":
			res, got = Unsat, true
		case l == "unknown" || l == "timeout":
			res, got = Unknown, true
		}
	}
	if errs != "" || !got {
		return Unknown, errs
	}
	return res, ""
}

func (s *Solver) wall() time.Duration {
	return time.Duration(s.TimeoutMS)*time.Millisecond + 15*time.Second
}

func (s *Solver) count(r Result, d time.Duration) {
	s.Stats.Queries++
	s.Stats.Seconds += d.Seconds()
	if s.Stats.ByTag == nil {
		s.Stats.ByTag = map[string]TagStat{}
	}
	tag := s.Tag
	if tag == "" {
		tag = "branch"
	}
	ts := s.Stats.ByTag[tag]
	ts.N++
	ts.Seconds += d.Seconds()
	if r == Unknown {
		ts.Unknown++
	}
	s.Stats.ByTag[tag] = ts
	switch r {
	case Sat:
		s.Stats.SatN++
	case Unsat:
		s.Stats.UnsatN++
	default:
		s.Stats.UnknownN++
	}
}

// syncPrimary sends pending level-0 assertions to the primary process.
func (s *Solver) syncPrimary(sb *strings.Builder) {
	if s.sent < 0 {
		sb.WriteString("(reset)\n")
		sb.WriteString(s.primary.pre)
		s.sent = 0
		s.defined = map[int]bool{}
		s.declVars = map[string]bool{}
		s.declFuns = map[string]bool{}
	}
	for ; s.sent < len(s.asserted); s.sent++ {
		n := s.defs(sb, s.asserted[s.sent], s.defined, s.declVars, s.declFuns)
		fmt.Fprintf(sb, "(assert %s)\n", n)
	}
}

// Check decides satisfiability of (path condition ∧ extra).
func (s *Solver) Check(extra *Term) Result {
	r, _ := s.check(extra, nil)
	return r
}

// Model is Check plus values for vars when sat.
func (s *Solver) Model(extra *Term, vars []*Term) (Result, map[string]ModelVal) {
	return s.check(extra, vars)
}

func (s *Solver) check(extra *Term, vars []*Term) (Result, map[string]ModelVal) {
	if extra != nil {
		if v, ok := extra.BoolVal(); ok {
			if !v {
				return Unsat, nil
			}
			extra = nil
		}
	}
	t0 := time.Now()
	if s.Fresh {
		r, m := s.oneShot(s.primary, extra, vars)
		s.sent = -1
		if r == Unknown {
			for _, p := range s.portfolio {
				r2, m2 := s.oneShot(p, extra, vars)
				if r2 != Unknown {
					r, m = r2, m2
					s.Stats.Fallback++
					break
				}
			}
		}
		s.count(r, time.Since(t0))
		return r, m
	}
	var sb strings.Builder
	s.syncPrimary(&sb)
	name := ""
	if extra != nil {
		name = s.defs(&sb, extra, s.defined, s.declVars, s.declFuns)
	}
	for _, v := range vars {
		s.defs(&sb, v, s.defined, s.declVars, s.declFuns)
	}
	sb.WriteString("(push 1)\n")
	if name != "" {
		fmt.Fprintf(&sb, "(assert %s)\n", name)
	}
	sb.WriteString("(check-sat)\n")
	lines, err := s.primary.run(sb.String(), s.wall())
	res := Unknown
	if err != nil {
		s.sent = -1
		s.LastErr = err.Error()
		s.Stats.Errors++
	} else {
		var e string
		res, e = parseResult(lines)
		if e != "" {
			s.LastErr = e
			s.Stats.Errors++
		}
	}
	var model map[string]ModelVal
	if err == nil {
		if res == Sat && len(vars) > 0 {
			model = s.getValues(s.primary, vars)
			if model == nil {
				res = Unknown
			}
		}
		if _, e := s.primary.run("(pop 1)", s.wall()); e != nil {
			s.sent = -1
		}
	}
	if res == Unknown {
		for _, p := range s.portfolio {
			r2, m2 := s.oneShot(p, extra, vars)
			if r2 != Unknown {
				res, model = r2, m2
				s.Stats.Fallback++
				break
			}
		}
	}
	s.count(res, time.Since(t0))
	return res, model
}

// oneShot runs the whole query from scratch on p.
func (s *Solver) oneShot(p *proc, extra *Term, vars []*Term) (Result, map[string]ModelVal) {
	var sb strings.Builder
	sb.WriteString("(reset)\n")
	sb.WriteString(p.pre)
	defined := map[int]bool{}
	dv := map[string]bool{}
	df := map[string]bool{}
	for _, a := range s.asserted {
		n := s.defs(&sb, a, defined, dv, df)
		fmt.Fprintf(&sb, "(assert %s)\n", n)
	}
	if extra != nil {
		n := s.defs(&sb, extra, defined, dv, df)
		fmt.Fprintf(&sb, "(assert %s)\n", n)
	}
	for _, v := range vars {
		s.defs(&sb, v, defined, dv, df)
	}
	sb.WriteString("(check-sat)\n")
	tq := time.Now()
	lines, err := p.run(sb.String(), s.wall())
	if d := os.Getenv("GOSYMX_DUMP_SLOW"); d != "" && time.Since(tq) > 1500*time.Millisecond {
		os.WriteFile(fmt.Sprintf("%s/q-%s-%d-%d.smt2", d, p.name, os.Getpid(), time.Now().UnixNano()), []byte(fmt.Sprintf("; %v %v\n%s", time.Since(tq), lines, sb.String())), 0o644)
	}
	if err != nil {
		s.Stats.Errors++
		return Unknown, nil
	}
	res, e := parseResult(lines)
	if e != "" {
		s.LastErr = e
		s.Stats.Errors++
		return Unknown, nil
	}
	var model map[string]ModelVal
	if res == Sat && len(vars) > 0 {
		model = s.getValues(p, vars)
		if model == nil {
			return Unknown, nil
		}
	}
	return res, model
}

// CheckSet decides satisfiability of the conjunction of set (∧ extra) from
// scratch on the primary solver (then the portfolio), ignoring the path
// condition held by the session; used with independence slicing.
func (s *Solver) CheckSet(set []*Term, extra *Term) Result {
	t0 := time.Now()
	saved := s.asserted
	s.asserted = set
	r, _ := s.oneShot(s.primary, extra, nil)
	if r == Unknown {
		for _, p := range s.portfolio {
			r2, _ := s.oneShot(p, extra, nil)
			if r2 != Unknown {
				r = r2
				s.Stats.Fallback++
				break
			}
		}
	}
	s.asserted = saved
	s.sent = -1
	s.count(r, time.Since(t0))
	return r
}

// CheckWith decides the query on a given portfolio index (0 = primary one-shot
// style is not offered; 1.. = portfolio); used for cross-solver diffs.
func (s *Solver) CheckOn(idx int, extra *Term) Result {
	if idx < 0 || idx >= len(s.portfolio) {
		return Unknown
	}
	t0 := time.Now()
	r, _ := s.oneShot(s.portfolio[idx], extra, nil)
	s.count(r, time.Since(t0))
	return r
}

type ModelVal struct {
	Sort Sort
	U    uint64 // bool (0/1), bv bits (low 64), fp bits
}

func (m ModelVal) Float() float64 { return math.Float64frombits(m.U) }

func (s *Solver) getValues(p *proc, vars []*Term) map[string]ModelVal {
	var sb strings.Builder
	sb.WriteString("(get-value (")
	for _, v := range vars {
		sb.WriteString(v.Name)
		sb.WriteByte(' ')
	}
	sb.WriteString("))")
	lines, err := p.run(sb.String(), s.wall())
	if err != nil {
		return nil
	}
	txt := strings.Join(lines, " ")
	if strings.Contains(txt, "(error") {
		s.LastErr = txt
		return nil
	}
	sx, _ := parseSexp(txt, 0)
	out := map[string]ModelVal{}
	byName := map[string]*Term{}
	for _, v := range vars {
		byName[v.Name] = v
	}
	for _, pair := range sx.list {
		if len(pair.list) != 2 {
			continue
		}
		v := byName[pair.list[0].atom]
		if v == nil {
			continue
		}
		mv, ok := evalValue(pair.list[1], v.Sort)
		if !ok {
			s.LastErr = "cannot parse model value: " + pair.list[1].String()
			return nil
		}
		out[v.Name] = mv
	}
	return out
}

type sexp struct {
	atom string
	list []*sexp
	isL  bool
}

func (s *sexp) String() string {
	if !s.isL {
		return s.atom
	}
	var parts []string
	for _, c := range s.list {
		parts = append(parts, c.String())
	}
	return "(" + strings.Join(parts, " ") + ")"
}

func parseSexp(t string, i int) (*sexp, int) {
	for i < len(t) && (t[i] == ' ' || t[i] == '\n' || t[i] == '\t') {
		i++
	}
	if i >= len(t) {
		return &sexp{}, i
	}
	if t[i] == '(' {
		n := &sexp{isL: true}
		i++
		for {
			for i < len(t) && (t[i] == ' ' || t[i] == '\n' || t[i] == '\t') {
				i++
			}
			if i >= len(t) {
				return n, i
			}
			if t[i] == ')' {
				return n, i + 1
			}
			var c *sexp
			c, i = parseSexp(t, i)
			n.list = append(n.list, c)
		}
	}
	j := i
	for j < len(t) && t[j] != ' ' && t[j] != '(' && t[j] != ')' && t[j] != '\n' {
		j++
	}
	return &sexp{atom: t[i:j]}, j
}

func parseBits(a string) (uint64, int, bool) {
	if strings.HasPrefix(a, "#x") {
		h := a[2:]
		w := len(h) * 4
		if len(h) > 16 {
			h = h[len(h)-16:]
		}
		v, err := strconv.ParseUint(h, 16, 64)
		return v, w, err == nil
	}
	if strings.HasPrefix(a, "#b") {
		b := a[2:]
		w := len(b)
		if len(b) > 64 {
			b = b[len(b)-64:]
		}
		v, err := strconv.ParseUint(b, 2, 64)
		return v, w, err == nil
	}
	return 0, 0, false
}

func evalValue(x *sexp, s Sort) (ModelVal, bool) {
	switch s.K {
	case KBool:
		if x.atom == "true" {
			return ModelVal{s, 1}, true
		}
		if x.atom == "false" {
			return ModelVal{s, 0}, true
		}
	case KBV:
		if !x.isL {
			v, _, ok := parseBits(x.atom)
			return ModelVal{s, v}, ok
		}
		// (_ bv123 64)
		if len(x.list) == 3 && x.list[0].atom == "_" && strings.HasPrefix(x.list[1].atom, "bv") {
			v, err := strconv.ParseUint(x.list[1].atom[2:], 10, 64)
			return ModelVal{s, v}, err == nil
		}
	case KFP:
		if x.isL && len(x.list) == 4 && x.list[0].atom == "fp" {
			sg, _, ok1 := parseBits(x.list[1].atom)
			ex, _, ok2 := parseBits(x.list[2].atom)
			mn, _, ok3 := parseBits(x.list[3].atom)
			return ModelVal{s, sg<<63 | ex<<52 | mn}, ok1 && ok2 && ok3
		}
		if x.isL && len(x.list) == 4 && x.list[0].atom == "_" {
			switch x.list[1].atom {
			case "+zero":
				return ModelVal{s, 0}, true
			case "-zero":
				return ModelVal{s, 1 << 63}, true
			case "+oo":
				return ModelVal{s, math.Float64bits(math.Inf(1))}, true
			case "-oo":
				return ModelVal{s, math.Float64bits(math.Inf(-1))}, true
			case "NaN":
				return ModelVal{s, math.Float64bits(math.NaN())}, true
			}
		}
	}
	return ModelVal{}, false
}
