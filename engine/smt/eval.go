package smt

import (
	"math"
)

// Eval evaluates t under a model (variable name -> value). ok is false when
// the term contains something the evaluator does not model (uninterpreted
// functions, widths over 64 bits, unspecified conversions).
func Eval(t *Term, model map[string]ModelVal, memo map[int]evalRes) (uint64, bool) {
	if r, ok := memo[t.ID]; ok {
		return r.v, r.ok
	}
	v, ok := eval1(t, model, memo)
	memo[t.ID] = evalRes{v, ok}
	return v, ok
}

type evalRes struct {
	v  uint64
	ok bool
}

type EvalMemo = map[int]evalRes

func NewMemo() EvalMemo { return map[int]evalRes{} }

func b2u(b bool) uint64 {
	if b {
		return 1
	}
	return 0
}

func eval1(t *Term, model map[string]ModelVal, memo map[int]evalRes) (uint64, bool) {
	switch t.Op {
	case OConst:
		if t.Sort.K == KBV && t.Sort.W > 64 {
			return 0, false
		}
		return t.U, true
	case OVar:
		mv, ok := model[t.Name]
		if !ok {
			// unconstrained so far: any value works, take zero
			return 0, true
		}
		return mv.U, true
	case OApply:
		f, ok := FuncImpl[t.Name]
		if !ok {
			return 0, false
		}
		args := make([]uint64, len(t.Args))
		for i, a := range t.Args {
			v, ok := Eval(a, model, memo)
			if !ok {
				return 0, false
			}
			args[i] = v
		}
		return f(args), true
	}
	if t.Sort.K == KBV && t.Sort.W > 64 {
		return 0, false
	}
	args := make([]uint64, len(t.Args))
	for i, a := range t.Args {
		if a.Sort.K == KBV && a.Sort.W > 64 {
			return 0, false
		}
		// short-circuit ite
		if t.Op == OIte && i > 0 {
			continue
		}
		v, ok := Eval(a, model, memo)
		if !ok {
			return 0, false
		}
		args[i] = v
	}
	w := 0
	if len(t.Args) > 0 {
		w = t.Args[0].Sort.W
	}
	f := func(i int) float64 { return math.Float64frombits(args[i]) }
	fb := func(x float64) uint64 { return math.Float64bits(x) }
	switch t.Op {
	case ONot:
		return args[0] ^ 1, true
	case OAnd:
		return args[0] & args[1], true
	case OOr:
		return args[0] | args[1], true
	case OIte:
		if args[0] == 1 {
			return Eval(t.Args[1], model, memo)
		}
		return Eval(t.Args[2], model, memo)
	case OEq:
		if t.Args[0].Sort.K == KFP {
			a, b := f(0), f(1)
			if math.IsNaN(a) || math.IsNaN(b) {
				return b2u(math.IsNaN(a) && math.IsNaN(b)), true
			}
		}
		return b2u(args[0] == args[1]), true
	case OBvAdd:
		return (args[0] + args[1]) & mask(w), true
	case OBvSub:
		return (args[0] - args[1]) & mask(w), true
	case OBvMul:
		return (args[0] * args[1]) & mask(w), true
	case OBvAnd:
		return args[0] & args[1], true
	case OBvOr:
		return args[0] | args[1], true
	case OBvXor:
		return args[0] ^ args[1], true
	case OBvNeg:
		return (-args[0]) & mask(w), true
	case OBvNot:
		return (^args[0]) & mask(w), true
	case OBvShl:
		if args[1] >= uint64(w) {
			return 0, true
		}
		return (args[0] << args[1]) & mask(w), true
	case OBvLshr:
		if args[1] >= uint64(w) {
			return 0, true
		}
		return args[0] >> args[1], true
	case OBvAshr:
		n := args[1]
		if n >= uint64(w) {
			n = uint64(w - 1)
		}
		return uint64(sext64(args[0], w)>>n) & mask(w), true
	case OBvUDiv:
		if args[1] == 0 {
			return mask(w), true
		}
		return args[0] / args[1], true
	case OBvURem:
		if args[1] == 0 {
			return args[0], true
		}
		return args[0] % args[1], true
	case OBvSDiv:
		a, b := sext64(args[0], w), sext64(args[1], w)
		if b == 0 {
			if a >= 0 {
				return mask(w), true
			}
			return 1, true
		}
		if b == -1 {
			return uint64(-a) & mask(w), true
		}
		return uint64(a/b) & mask(w), true
	case OBvSRem:
		a, b := sext64(args[0], w), sext64(args[1], w)
		if b == 0 {
			return uint64(a) & mask(w), true
		}
		if b == -1 {
			return 0, true
		}
		return uint64(a%b) & mask(w), true
	case OBvUlt:
		return b2u(args[0] < args[1]), true
	case OBvUle:
		return b2u(args[0] <= args[1]), true
	case OBvSlt:
		return b2u(sext64(args[0], w) < sext64(args[1], w)), true
	case OBvSle:
		return b2u(sext64(args[0], w) <= sext64(args[1], w)), true
	case OExtract:
		hi, lo := int(t.U>>16), int(t.U&0xffff)
		return (args[0] >> uint(lo)) & mask(hi-lo+1), true
	case OConcat:
		return (args[0]<<uint(t.Args[1].Sort.W) | args[1]) & mask(t.Sort.W), true
	case OZext:
		return args[0], true
	case OSext:
		return uint64(sext64(args[0], w)) & mask(t.Sort.W), true
	case OFpAdd:
		return fb(f(0) + f(1)), true
	case OFpSub:
		return fb(f(0) - f(1)), true
	case OFpMul:
		return fb(f(0) * f(1)), true
	case OFpDiv:
		return fb(f(0) / f(1)), true
	case OFpNeg:
		return args[0] ^ (1 << 63), true
	case OFpAbs:
		return args[0] &^ (1 << 63), true
	case OFpLt:
		return b2u(f(0) < f(1)), true
	case OFpLe:
		return b2u(f(0) <= f(1)), true
	case OFpEq:
		return b2u(f(0) == f(1)), true
	case OFpIsNaN:
		return b2u(math.IsNaN(f(0))), true
	case OFpIsInf:
		return b2u(math.IsInf(f(0), 0)), true
	case OFpRound:
		x := f(0)
		switch t.U {
		case RMNearestEven:
			return fb(math.RoundToEven(x)), true
		case RMNearestAway:
			return fb(math.Round(x)), true
		case RMTowardPos:
			return fb(math.Ceil(x)), true
		case RMTowardNeg:
			return fb(math.Floor(x)), true
		default:
			return fb(math.Trunc(x)), true
		}
	case OFpFromSBV:
		return fb(float64(sext64(args[0], w))), true
	case OFpFromUBV:
		return fb(float64(args[0])), true
	case OFpToSBV:
		x := f(0)
		if t.Sort.W != 64 || math.IsNaN(x) || x >= 9223372036854775808.0 || x < -9223372036854775808.0 {
			return 0, false // unspecified in SMT-LIB
		}
		return uint64(int64(x)), true
	case OFpToUBV:
		x := f(0)
		if t.Sort.W != 64 || math.IsNaN(x) || x >= 18446744073709551616.0 || x <= -1 {
			return 0, false
		}
		return uint64(x), true
	case OFpFromBits:
		return args[0], true
	}
	return 0, false
}

// FuncImpl gives the evaluator the real meaning of functions that are
// uninterpreted for the solver (an over-approximation there).
var FuncImpl = map[string]func(args []uint64) uint64{}
