// Package smt holds the term language of the symbolic executor: hash-consed
// bit-vector / boolean / IEEE-754 double terms with constant folding, and an
// SMT-LIB2 printer.
package smt

import (
	"fmt"
	"math"
	"math/bits"
	"strconv"
	"strings"
)

type Kind uint8

const (
	KBool Kind = iota
	KBV
	KFP // float64 only
)

type Sort struct {
	K Kind
	W int // bit width for KBV
}

var BoolSort = Sort{K: KBool}
var FPSort = Sort{K: KFP, W: 64}

func BVSort(w int) Sort { return Sort{K: KBV, W: w} }

func (s Sort) String() string {
	switch s.K {
	case KBool:
		return "Bool"
	case KBV:
		return fmt.Sprintf("(_ BitVec %d)", s.W)
	default:
		return "(_ FloatingPoint 11 53)"
	}
}

type Op uint8

const (
	OConst Op = iota
	OVar
	// bool
	ONot
	OAnd
	OOr
	OIte
	OEq
	// bv
	OBvAdd
	OBvSub
	OBvMul
	OBvSDiv
	OBvSRem
	OBvUDiv
	OBvURem
	OBvAnd
	OBvOr
	OBvXor
	OBvShl
	OBvLshr
	OBvAshr
	OBvNeg
	OBvNot
	OBvUlt
	OBvUle
	OBvSlt
	OBvSle
	OExtract // U = hi<<16 | lo
	OConcat
	OZext // to Sort.W
	OSext
	// fp
	OFpAdd
	OFpSub
	OFpMul
	OFpDiv
	OFpNeg
	OFpAbs
	OFpLt
	OFpLe
	OFpEq // IEEE equality (NaN != NaN, -0 == +0)
	OFpIsNaN
	OFpIsInf
	OFpRound    // U = rounding mode (RM*)
	OFpFromSBV  // to_fp RNE from signed bv
	OFpFromUBV  // to_fp_unsigned RNE
	OFpToSBV    // fp.to_sbv W RTZ
	OFpToUBV    // fp.to_ubv W RTZ
	OFpFromBits // reinterpret BV64 as FP
	OApply      // uninterpreted function Name(args)
)

const (
	RMNearestEven = iota
	RMNearestAway
	RMTowardPos
	RMTowardNeg
	RMTowardZero
)

var rmNames = []string{"RNE", "RNA", "RTP", "RTN", "RTZ"}

type Term struct {
	Op   Op
	Args []*Term
	Sort Sort
	U    uint64 // constant bits / extract bounds / rounding mode
	Name string // variable or function name
	ID   int
}

func (t *Term) IsConst() bool { return t.Op == OConst }

// Ctx is a per-path term factory (not goroutine-safe).
type Ctx struct {
	tab   map[string]*Term
	n     int
	Vars  []*Term
	Funcs map[string]FuncDecl
}

type FuncDecl struct {
	Name string
	Args []Sort
	Ret  Sort
}

func NewCtx() *Ctx {
	return &Ctx{tab: map[string]*Term{}, Funcs: map[string]FuncDecl{}}
}

func (c *Ctx) mk(op Op, s Sort, u uint64, name string, args ...*Term) *Term {
	var sb strings.Builder
	sb.WriteByte(byte(op))
	sb.WriteByte(byte(s.K))
	sb.WriteString(strconv.Itoa(s.W))
	sb.WriteByte('|')
	sb.WriteString(strconv.FormatUint(u, 16))
	sb.WriteByte('|')
	sb.WriteString(name)
	for _, a := range args {
		sb.WriteByte(',')
		sb.WriteString(strconv.Itoa(a.ID))
	}
	k := sb.String()
	if t, ok := c.tab[k]; ok {
		return t
	}
	c.n++
	t := &Term{Op: op, Args: args, Sort: s, U: u, Name: name, ID: c.n}
	c.tab[k] = t
	return t
}

func mask(w int) uint64 {
	if w >= 64 {
		return ^uint64(0)
	}
	return (uint64(1) << uint(w)) - 1
}

func sext64(v uint64, w int) int64 {
	if w >= 64 {
		return int64(v)
	}
	sh := uint(64 - w)
	return int64(v<<sh) >> sh
}

func (c *Ctx) True() *Term  { return c.Bool(true) }
func (c *Ctx) False() *Term { return c.Bool(false) }
func (c *Ctx) Bool(b bool) *Term {
	u := uint64(0)
	if b {
		u = 1
	}
	return c.mk(OConst, BoolSort, u, "")
}
func (c *Ctx) BV(v uint64, w int) *Term {
	if w > 64 {
		// wide constants are built by extension of a 64-bit constant
		return c.Zext(c.BV(v, 64), w)
	}
	return c.mk(OConst, BVSort(w), v&mask(w), "")
}
func (c *Ctx) BVS(v int64, w int) *Term {
	if w > 64 {
		return c.Sext(c.BV(uint64(v), 64), w)
	}
	return c.BV(uint64(v), w)
}
func (c *Ctx) FP(f float64) *Term { return c.mk(OConst, FPSort, math.Float64bits(f), "") }

func (c *Ctx) Var(name string, s Sort) *Term {
	t := c.mk(OVar, s, 0, name)
	if len(c.Vars) == 0 || c.Vars[len(c.Vars)-1] != t {
		found := false
		for _, v := range c.Vars {
			if v == t {
				found = true
				break
			}
		}
		if !found {
			c.Vars = append(c.Vars, t)
		}
	}
	return t
}

func (t *Term) BoolVal() (bool, bool) {
	if t.Op == OConst && t.Sort.K == KBool {
		return t.U == 1, true
	}
	return false, false
}
func (t *Term) BVVal() (uint64, bool) {
	if t.Op == OConst && t.Sort.K == KBV {
		return t.U, true
	}
	return 0, false
}
func (t *Term) FPVal() (float64, bool) {
	if t.Op == OConst && t.Sort.K == KFP {
		return math.Float64frombits(t.U), true
	}
	return 0, false
}

// ---- boolean ----

func (c *Ctx) Not(a *Term) *Term {
	if v, ok := a.BoolVal(); ok {
		return c.Bool(!v)
	}
	if a.Op == ONot {
		return a.Args[0]
	}
	return c.mk(ONot, BoolSort, 0, "", a)
}

func (c *Ctx) And(a, b *Term) *Term {
	if v, ok := a.BoolVal(); ok {
		if v {
			return b
		}
		return a
	}
	if v, ok := b.BoolVal(); ok {
		if v {
			return a
		}
		return b
	}
	if a == b {
		return a
	}
	return c.mk(OAnd, BoolSort, 0, "", a, b)
}

func (c *Ctx) Or(a, b *Term) *Term {
	if v, ok := a.BoolVal(); ok {
		if v {
			return a
		}
		return b
	}
	if v, ok := b.BoolVal(); ok {
		if v {
			return b
		}
		return a
	}
	if a == b {
		return a
	}
	return c.mk(OOr, BoolSort, 0, "", a, b)
}

func (c *Ctx) Implies(a, b *Term) *Term { return c.Or(c.Not(a), b) }
func (c *Ctx) Iff(a, b *Term) *Term     { return c.Eq(a, b) }

func (c *Ctx) Ite(cond, a, b *Term) *Term {
	if v, ok := cond.BoolVal(); ok {
		if v {
			return a
		}
		return b
	}
	if a == b {
		return a
	}
	if a.Sort.K == KBool {
		av, aok := a.BoolVal()
		bv, bok := b.BoolVal()
		if aok && bok {
			if av && !bv {
				return cond
			}
			if !av && bv {
				return c.Not(cond)
			}
		}
	}
	return c.mk(OIte, a.Sort, 0, "", cond, a, b)
}

// Eq is structural/bit equality (for FP: SMT "=" which distinguishes -0/+0
// and equates NaN with NaN); use FpEq for Go's ==.
func (c *Ctx) Eq(a, b *Term) *Term {
	if a == b {
		return c.True()
	}
	if a.Op == OConst && b.Op == OConst {
		return c.Bool(a.U == b.U)
	}
	if a.Sort.K == KBool {
		if v, ok := a.BoolVal(); ok {
			if v {
				return b
			}
			return c.Not(b)
		}
		if v, ok := b.BoolVal(); ok {
			if v {
				return a
			}
			return c.Not(a)
		}
	}
	if a.ID > b.ID {
		a, b = b, a
	}
	return c.mk(OEq, BoolSort, 0, "", a, b)
}

// ---- bit-vectors ----

func (c *Ctx) bin(op Op, a, b *Term) *Term {
	if a.Sort != b.Sort {
		panic(fmt.Sprintf("smt: sort mismatch %v %v in op %d", a.Sort, b.Sort, op))
	}
	w := a.Sort.W
	av, aok := a.BVVal()
	bv, bok := b.BVVal()
	if aok && bok && w <= 64 {
		var r uint64
		ok := true
		switch op {
		case OBvAdd:
			r = av + bv
		case OBvSub:
			r = av - bv
		case OBvMul:
			r = av * bv
		case OBvAnd:
			r = av & bv
		case OBvOr:
			r = av | bv
		case OBvXor:
			r = av ^ bv
		case OBvShl:
			if bv >= uint64(w) {
				r = 0
			} else {
				r = av << bv
			}
		case OBvLshr:
			if bv >= uint64(w) {
				r = 0
			} else {
				r = av >> bv
			}
		case OBvAshr:
			s := sext64(av, w)
			if bv >= uint64(w) {
				bv = uint64(w - 1)
			}
			r = uint64(s >> bv)
		case OBvUDiv:
			if bv == 0 {
				r = mask(w)
			} else {
				r = av / bv
			}
		case OBvURem:
			if bv == 0 {
				r = av
			} else {
				r = av % bv
			}
		case OBvSDiv:
			sa, sb := sext64(av, w), sext64(bv, w)
			if sb == 0 {
				if sa >= 0 {
					r = mask(w)
				} else {
					r = 1
				}
			} else if sb == -1 {
				r = uint64(-sa)
			} else {
				r = uint64(sa / sb)
			}
		case OBvSRem:
			sa, sb := sext64(av, w), sext64(bv, w)
			if sb == 0 {
				r = uint64(sa)
			} else if sb == -1 {
				r = 0
			} else {
				r = uint64(sa % sb)
			}
		default:
			ok = false
		}
		if ok {
			return c.BV(r, w)
		}
	}
	// light identities
	switch op {
	case OBvAdd, OBvOr, OBvXor:
		if aok && av == 0 {
			return b
		}
		if bok && bv == 0 {
			return a
		}
	case OBvSub, OBvShl, OBvLshr, OBvAshr:
		if bok && bv == 0 {
			return a
		}
	case OBvMul:
		if aok && av == 1 {
			return b
		}
		if bok && bv == 1 {
			return a
		}
		if (aok && av == 0 && w <= 64) || (bok && bv == 0 && w <= 64) {
			return c.BV(0, w)
		}
	case OBvAnd:
		if aok && w <= 64 && av == mask(w) {
			return b
		}
		if bok && w <= 64 && bv == mask(w) {
			return a
		}
		if (aok && av == 0 && w <= 64) || (bok && bv == 0 && w <= 64) {
			return c.BV(0, w)
		}
	}
	return c.mk(op, a.Sort, 0, "", a, b)
}

func (c *Ctx) BvAdd(a, b *Term) *Term  { return c.bin(OBvAdd, a, b) }
func (c *Ctx) BvSub(a, b *Term) *Term  { return c.bin(OBvSub, a, b) }
func (c *Ctx) BvMul(a, b *Term) *Term  { return c.bin(OBvMul, a, b) }
func (c *Ctx) BvSDiv(a, b *Term) *Term { return c.bin(OBvSDiv, a, b) }
func (c *Ctx) BvSRem(a, b *Term) *Term { return c.bin(OBvSRem, a, b) }
func (c *Ctx) BvUDiv(a, b *Term) *Term { return c.bin(OBvUDiv, a, b) }
func (c *Ctx) BvURem(a, b *Term) *Term { return c.bin(OBvURem, a, b) }
func (c *Ctx) BvAnd(a, b *Term) *Term  { return c.bin(OBvAnd, a, b) }
func (c *Ctx) BvOr(a, b *Term) *Term   { return c.bin(OBvOr, a, b) }
func (c *Ctx) BvXor(a, b *Term) *Term  { return c.bin(OBvXor, a, b) }
func (c *Ctx) BvShl(a, b *Term) *Term  { return c.bin(OBvShl, a, b) }
func (c *Ctx) BvLshr(a, b *Term) *Term { return c.bin(OBvLshr, a, b) }
func (c *Ctx) BvAshr(a, b *Term) *Term { return c.bin(OBvAshr, a, b) }

func (c *Ctx) BvNeg(a *Term) *Term {
	if v, ok := a.BVVal(); ok && a.Sort.W <= 64 {
		return c.BV(-v, a.Sort.W)
	}
	return c.mk(OBvNeg, a.Sort, 0, "", a)
}
func (c *Ctx) BvNot(a *Term) *Term {
	if v, ok := a.BVVal(); ok && a.Sort.W <= 64 {
		return c.BV(^v, a.Sort.W)
	}
	return c.mk(OBvNot, a.Sort, 0, "", a)
}

func (c *Ctx) cmp(op Op, a, b *Term) *Term {
	if a.Sort != b.Sort {
		panic(fmt.Sprintf("smt: sort mismatch %v %v in cmp %d", a.Sort, b.Sort, op))
	}
	w := a.Sort.W
	av, aok := a.BVVal()
	bv, bok := b.BVVal()
	if aok && bok && w <= 64 {
		switch op {
		case OBvUlt:
			return c.Bool(av < bv)
		case OBvUle:
			return c.Bool(av <= bv)
		case OBvSlt:
			return c.Bool(sext64(av, w) < sext64(bv, w))
		case OBvSle:
			return c.Bool(sext64(av, w) <= sext64(bv, w))
		}
	}
	if a == b {
		return c.Bool(op == OBvUle || op == OBvSle)
	}
	return c.mk(op, BoolSort, 0, "", a, b)
}
func (c *Ctx) BvUlt(a, b *Term) *Term { return c.cmp(OBvUlt, a, b) }
func (c *Ctx) BvUle(a, b *Term) *Term { return c.cmp(OBvUle, a, b) }
func (c *Ctx) BvSlt(a, b *Term) *Term { return c.cmp(OBvSlt, a, b) }
func (c *Ctx) BvSle(a, b *Term) *Term { return c.cmp(OBvSle, a, b) }

func (c *Ctx) Extract(a *Term, hi, lo int) *Term {
	if lo == 0 && hi == a.Sort.W-1 {
		return a
	}
	w := hi - lo + 1
	if v, ok := a.BVVal(); ok && a.Sort.W <= 64 {
		return c.BV(v>>uint(lo), w)
	}
	// extract of zext/sext below the original width
	if (a.Op == OZext || a.Op == OSext) && hi < a.Args[0].Sort.W {
		return c.Extract(a.Args[0], hi, lo)
	}
	return c.mk(OExtract, BVSort(w), uint64(hi)<<16|uint64(lo), "", a)
}

func (c *Ctx) Concat(hi, lo *Term) *Term {
	w := hi.Sort.W + lo.Sort.W
	hv, hok := hi.BVVal()
	lv, lok := lo.BVVal()
	if hok && lok && w <= 64 {
		return c.BV(hv<<uint(lo.Sort.W)|lv, w)
	}
	return c.mk(OConcat, BVSort(w), 0, "", hi, lo)
}

func (c *Ctx) Zext(a *Term, w int) *Term {
	if w == a.Sort.W {
		return a
	}
	if w < a.Sort.W {
		return c.Extract(a, w-1, 0)
	}
	if v, ok := a.BVVal(); ok && w <= 64 {
		return c.BV(v, w)
	}
	return c.mk(OZext, BVSort(w), 0, "", a)
}

func (c *Ctx) Sext(a *Term, w int) *Term {
	if w == a.Sort.W {
		return a
	}
	if w < a.Sort.W {
		return c.Extract(a, w-1, 0)
	}
	if v, ok := a.BVVal(); ok && w <= 64 {
		return c.BV(uint64(sext64(v, a.Sort.W)), w)
	}
	return c.mk(OSext, BVSort(w), 0, "", a)
}

// ---- floating point ----

func (c *Ctx) fpbin(op Op, a, b *Term) *Term {
	av, aok := a.FPVal()
	bv, bok := b.FPVal()
	if aok && bok {
		switch op {
		case OFpAdd:
			return c.FP(av + bv)
		case OFpSub:
			return c.FP(av - bv)
		case OFpMul:
			return c.FP(av * bv)
		case OFpDiv:
			return c.FP(av / bv)
		}
	}
	return c.mk(op, FPSort, 0, "", a, b)
}
func (c *Ctx) FpAdd(a, b *Term) *Term { return c.fpbin(OFpAdd, a, b) }
func (c *Ctx) FpSub(a, b *Term) *Term { return c.fpbin(OFpSub, a, b) }
func (c *Ctx) FpMul(a, b *Term) *Term { return c.fpbin(OFpMul, a, b) }
func (c *Ctx) FpDiv(a, b *Term) *Term { return c.fpbin(OFpDiv, a, b) }
func (c *Ctx) FpNeg(a *Term) *Term {
	if v, ok := a.FPVal(); ok {
		return c.FP(-v)
	}
	return c.mk(OFpNeg, FPSort, 0, "", a)
}
func (c *Ctx) FpAbs(a *Term) *Term {
	if v, ok := a.FPVal(); ok {
		return c.FP(math.Abs(v))
	}
	return c.mk(OFpAbs, FPSort, 0, "", a)
}
func (c *Ctx) fpcmp(op Op, a, b *Term) *Term {
	av, aok := a.FPVal()
	bv, bok := b.FPVal()
	if aok && bok {
		switch op {
		case OFpLt:
			return c.Bool(av < bv)
		case OFpLe:
			return c.Bool(av <= bv)
		case OFpEq:
			return c.Bool(av == bv)
		}
	}
	return c.mk(op, BoolSort, 0, "", a, b)
}
func (c *Ctx) FpLt(a, b *Term) *Term { return c.fpcmp(OFpLt, a, b) }
func (c *Ctx) FpLe(a, b *Term) *Term { return c.fpcmp(OFpLe, a, b) }
func (c *Ctx) FpEq(a, b *Term) *Term { return c.fpcmp(OFpEq, a, b) }
func (c *Ctx) FpIsNaN(a *Term) *Term {
	if v, ok := a.FPVal(); ok {
		return c.Bool(math.IsNaN(v))
	}
	return c.mk(OFpIsNaN, BoolSort, 0, "", a)
}
func (c *Ctx) FpIsInf(a *Term) *Term {
	if v, ok := a.FPVal(); ok {
		return c.Bool(math.IsInf(v, 0))
	}
	return c.mk(OFpIsInf, BoolSort, 0, "", a)
}
func (c *Ctx) FpRound(a *Term, rm int) *Term {
	if v, ok := a.FPVal(); ok {
		switch rm {
		case RMNearestEven:
			return c.FP(math.RoundToEven(v))
		case RMNearestAway:
			return c.FP(math.Round(v))
		case RMTowardPos:
			return c.FP(math.Ceil(v))
		case RMTowardNeg:
			return c.FP(math.Floor(v))
		case RMTowardZero:
			return c.FP(math.Trunc(v))
		}
	}
	return c.mk(OFpRound, FPSort, uint64(rm), "", a)
}
func (c *Ctx) FpFromSBV(a *Term) *Term {
	if v, ok := a.BVVal(); ok && a.Sort.W <= 64 {
		return c.FP(float64(sext64(v, a.Sort.W)))
	}
	return c.mk(OFpFromSBV, FPSort, 0, "", a)
}
func (c *Ctx) FpFromUBV(a *Term) *Term {
	if v, ok := a.BVVal(); ok && a.Sort.W <= 64 {
		return c.FP(float64(v))
	}
	return c.mk(OFpFromUBV, FPSort, 0, "", a)
}

// FpToSBV is fp.to_sbv with RTZ; the result for out-of-range / NaN inputs is
// unspecified in SMT-LIB, callers must guard.
func (c *Ctx) FpToSBV(a *Term, w int) *Term {
	if v, ok := a.FPVal(); ok && w == 64 {
		if !math.IsNaN(v) && v >= -9223372036854775808.0 && v < 9223372036854775808.0 {
			return c.BV(uint64(int64(v)), 64)
		}
	}
	return c.mk(OFpToSBV, BVSort(w), 0, "", a)
}
func (c *Ctx) FpToUBV(a *Term, w int) *Term {
	if v, ok := a.FPVal(); ok && w == 64 {
		if !math.IsNaN(v) && v >= 0 && v < 18446744073709551616.0 {
			return c.BV(uint64(v), 64)
		}
	}
	return c.mk(OFpToUBV, BVSort(w), 0, "", a)
}
func (c *Ctx) FpFromBits(a *Term) *Term {
	if v, ok := a.BVVal(); ok {
		return c.FP(math.Float64frombits(v))
	}
	return c.mk(OFpFromBits, FPSort, 0, "", a)
}

func (c *Ctx) Apply(name string, ret Sort, args ...*Term) *Term {
	if _, ok := c.Funcs[name]; !ok {
		fd := FuncDecl{Name: name, Ret: ret}
		for _, a := range args {
			fd.Args = append(fd.Args, a.Sort)
		}
		c.Funcs[name] = fd
	}
	return c.mk(OApply, ret, 0, name, args...)
}

// ---- printing ----

var opNames = map[Op]string{
	ONot: "not", OAnd: "and", OOr: "or", OIte: "ite", OEq: "=",
	OBvAdd: "bvadd", OBvSub: "bvsub", OBvMul: "bvmul", OBvSDiv: "bvsdiv", OBvSRem: "bvsrem",
	OBvUDiv: "bvudiv", OBvURem: "bvurem", OBvAnd: "bvand", OBvOr: "bvor", OBvXor: "bvxor",
	OBvShl: "bvshl", OBvLshr: "bvlshr", OBvAshr: "bvashr", OBvNeg: "bvneg", OBvNot: "bvnot",
	OBvUlt: "bvult", OBvUle: "bvule", OBvSlt: "bvslt", OBvSle: "bvsle", OConcat: "concat",
	OFpAdd: "fp.add RNE", OFpSub: "fp.sub RNE", OFpMul: "fp.mul RNE", OFpDiv: "fp.div RNE",
	OFpNeg: "fp.neg", OFpAbs: "fp.abs", OFpLt: "fp.lt", OFpLe: "fp.leq", OFpEq: "fp.eq",
	OFpIsNaN: "fp.isNaN", OFpIsInf: "fp.isInfinite",
}

// Head renders the operator application of t given rendered children.
func (t *Term) Head(ch []string) string {
	switch t.Op {
	case OConst:
		switch t.Sort.K {
		case KBool:
			if t.U == 1 {
				return "true"
			}
			return "false"
		case KBV:
			if t.Sort.W%4 == 0 {
				return fmt.Sprintf("#x%0*x", t.Sort.W/4, t.U)
			}
			return fmt.Sprintf("#b%0*b", t.Sort.W, t.U)
		default:
			b := t.U
			return fmt.Sprintf("(fp #b%b #b%011b #b%052b)", b>>63, (b>>52)&0x7ff, b&((1<<52)-1))
		}
	case OVar:
		return t.Name
	case OExtract:
		return fmt.Sprintf("((_ extract %d %d) %s)", t.U>>16, t.U&0xffff, ch[0])
	case OZext:
		return fmt.Sprintf("((_ zero_extend %d) %s)", t.Sort.W-t.Args[0].Sort.W, ch[0])
	case OSext:
		return fmt.Sprintf("((_ sign_extend %d) %s)", t.Sort.W-t.Args[0].Sort.W, ch[0])
	case OFpRound:
		return fmt.Sprintf("(fp.roundToIntegral %s %s)", rmNames[t.U], ch[0])
	case OFpFromSBV:
		return fmt.Sprintf("((_ to_fp 11 53) RNE %s)", ch[0])
	case OFpFromUBV:
		return fmt.Sprintf("((_ to_fp_unsigned 11 53) RNE %s)", ch[0])
	case OFpToSBV:
		return fmt.Sprintf("((_ fp.to_sbv %d) RTZ %s)", t.Sort.W, ch[0])
	case OFpToUBV:
		return fmt.Sprintf("((_ fp.to_ubv %d) RTZ %s)", t.Sort.W, ch[0])
	case OFpFromBits:
		return fmt.Sprintf("((_ to_fp 11 53) %s)", ch[0])
	case OApply:
		if len(ch) == 0 {
			return t.Name
		}
		return "(" + t.Name + " " + strings.Join(ch, " ") + ")"
	}
	return "(" + opNames[t.Op] + " " + strings.Join(ch, " ") + ")"
}

// Leaf reports whether t is printed inline (constants and variables).
func (t *Term) Leaf() bool { return t.Op == OConst || t.Op == OVar }

// String renders the term fully expanded (debugging / samples only).
func (t *Term) String() string {
	ch := make([]string, len(t.Args))
	for i, a := range t.Args {
		ch[i] = a.String()
	}
	return t.Head(ch)
}

// Size is the number of distinct nodes reachable from t.
func (t *Term) Size() int {
	seen := map[int]bool{}
	var walk func(*Term)
	walk = func(x *Term) {
		if seen[x.ID] {
			return
		}
		seen[x.ID] = true
		for _, a := range x.Args {
			walk(a)
		}
	}
	walk(t)
	return len(seen)
}

var _ = bits.Len64

// Rebuild reconstructs t with its arguments replaced (re-running the
// constructor's folding rules).
func (c *Ctx) Rebuild(t *Term, args []*Term) *Term {
	switch t.Op {
	case ONot:
		return c.Not(args[0])
	case OAnd:
		return c.And(args[0], args[1])
	case OOr:
		return c.Or(args[0], args[1])
	case OIte:
		return c.Ite(args[0], args[1], args[2])
	case OEq:
		return c.Eq(args[0], args[1])
	case OBvAdd, OBvSub, OBvMul, OBvSDiv, OBvSRem, OBvUDiv, OBvURem, OBvAnd, OBvOr, OBvXor, OBvShl, OBvLshr, OBvAshr:
		return c.bin(t.Op, args[0], args[1])
	case OBvNeg:
		return c.BvNeg(args[0])
	case OBvNot:
		return c.BvNot(args[0])
	case OBvUlt, OBvUle, OBvSlt, OBvSle:
		return c.cmp(t.Op, args[0], args[1])
	case OExtract:
		return c.Extract(args[0], int(t.U>>16), int(t.U&0xffff))
	case OConcat:
		return c.Concat(args[0], args[1])
	case OZext:
		return c.Zext(args[0], t.Sort.W)
	case OSext:
		return c.Sext(args[0], t.Sort.W)
	case OFpAdd, OFpSub, OFpMul, OFpDiv:
		return c.fpbin(t.Op, args[0], args[1])
	case OFpNeg:
		return c.FpNeg(args[0])
	case OFpAbs:
		return c.FpAbs(args[0])
	case OFpLt, OFpLe, OFpEq:
		return c.fpcmp(t.Op, args[0], args[1])
	case OFpIsNaN:
		return c.FpIsNaN(args[0])
	case OFpIsInf:
		return c.FpIsInf(args[0])
	case OFpRound:
		return c.FpRound(args[0], int(t.U))
	case OFpFromSBV:
		return c.FpFromSBV(args[0])
	case OFpFromUBV:
		return c.FpFromUBV(args[0])
	case OFpToSBV:
		return c.FpToSBV(args[0], t.Sort.W)
	case OFpToUBV:
		return c.FpToUBV(args[0], t.Sort.W)
	case OFpFromBits:
		return c.FpFromBits(args[0])
	case OApply:
		return c.Apply(t.Name, t.Sort, args...)
	}
	return t
}
