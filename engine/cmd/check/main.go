// check decides one property of /verif/properties.jsonl by bounded symbolic
// execution of the harness functions <ID>_* in /verif/harness against the
// current working tree of /repo, replays every counterexample natively, and
// writes /verif/evidence/<ID>.json.
package main

import (
	"bufio"
	"bytes"
	"crypto/sha1"
	"encoding/json"
	"flag"
	"fmt"
	"os"
	"os/exec"
	"path/filepath"
	"sort"
	"strconv"
	"strings"
	"time"

	"gosymx/sym"
)

type known struct {
	Property string `json:"property"`
	Harness  string `json:"harness"`
	Label    string `json:"label"`
	What     string `json:"what"`
	Status   string `json:"status"` // "known" | "fixed"
	Commit   string `json:"commit,omitempty"`
}

type vectorFile struct {
	Property string `json:"property"`
	Harness  string `json:"harness"`
	Tier     string `json:"tier"`
	Label    string `json:"label"`
	Detail   string `json:"detail"`
	Vector   []any  `json:"vector"`
	Lenient  bool   `json:"lenient,omitempty"` // replay stops quietly when the vector runs out
}

type replayOut struct {
	File   string   `json:"file"`
	Labels []string `json:"labels"`
	Panic  string   `json:"panic"`
	Assume bool     `json:"assume_failed"`
}

func main() {
	verif := flag.String("verif", "/verif", "verif root")
	tier := flag.String("tier", "", "quick|thorough")
	workers := flag.Int("j", 16, "workers")
	only := flag.String("only", "", "run only this harness")
	noReplay := flag.Bool("no-replay", false, "skip native replay (debugging)")
	flag.Parse()
	if flag.NArg() != 1 {
		fmt.Fprintln(os.Stderr, "usage: check [--tier quick|thorough] <PROPERTY>")
		os.Exit(2)
	}
	prop := flag.Arg(0)
	if *tier == "" {
		*tier = os.Getenv("VERIF_TIER")
	}
	if *tier == "" {
		*tier = "quick"
	}
	seed, _ := strconv.ParseInt(os.Getenv("VERIF_SEED"), 10, 64)
	t0 := time.Now()
	hdir := filepath.Join(*verif, "harness")
	// the harness module resolves the repository through its replace directive;
	// keep its go.sum in step with the repository's
	if b, err := os.ReadFile("/repo/go.sum"); err == nil {
		os.WriteFile(filepath.Join(hdir, "go.sum"), b, 0o644)
	}
	e, err := sym.Load(hdir, "verif")
	if err != nil {
		// the tree does not build: nothing can be decided, and nothing is alleged
		fmt.Println("ERROR: cannot load harness + repository:", err)
		writeEvidence(*verif, prop, *tier, seed, t0, nil, nil, nil, nil, []string{"load error: " + err.Error()}, 0)
		os.Exit(2)
	}
	e.Thorough = *tier == "thorough"
	var harnesses []string
	for name, m := range e.Harness.Members {
		if strings.HasPrefix(name, prop+"_") {
			if _, ok := m.(interface{ Pos() interface{} }); ok || true {
				if e.Harness.Func(name) != nil {
					harnesses = append(harnesses, name)
				}
			}
		}
	}
	sort.Strings(harnesses)
	if *only != "" {
		harnesses = []string{*only}
	}
	if len(harnesses) == 0 {
		fmt.Println("ERROR: no harness for", prop)
		os.Exit(2)
	}
	quickBudget, thoroughBudget := 270*time.Second, 50*time.Minute
	budget := quickBudget
	tmo := 10000
	if e.Thorough {
		budget = thoroughBudget
		tmo = 60000
	}
	if v := os.Getenv("VERIF_BUDGET_S"); v != "" {
		if n, err := strconv.Atoi(v); err == nil {
			budget = time.Duration(n) * time.Second
		}
	}
	deadline := t0.Add(budget)
	reserve := 20 * time.Second
	if e.Thorough {
		reserve = 3 * time.Minute
	}
	sums := map[string]*sym.Summary{}
	var notes []string
	_ = reserve
	// pass 1: an even share each; pass 2: harnesses cut short by their share
	// are re-run (the engine-wide query cache is warm) with what is left
	queue := append([]string(nil), harnesses...)
	for pass := 1; pass <= 2 && len(queue) > 0; pass++ {
		var again []string
		for i, h := range queue {
			remain := time.Until(deadline)
			left := time.Duration(len(queue) - i)
			per := remain / left
			if pass == 2 && remain < 10*time.Second {
				break
			}
			if per < 5*time.Second {
				per = 5 * time.Second
			}
			opts := sym.ExploreOpts{Workers: *workers, TimeoutMS: tmo, Portfolio: true, Deadline: time.Now().Add(per), MaxViolPer: 2, Seed: seed}
			if old := sums[h]; old != nil {
				// second pass: continue from the frontier the first pass left
				opts.Resume = old.Pending
			}
			s, err := e.Explore(h, opts)
			if err != nil {
				notes = append(notes, h+": "+err.Error())
				continue
			}
			if s.Truncated && pass == 1 {
				again = append(again, h)
			}
			if old := sums[h]; old != nil {
				old.Merge(s)
				s = old
			}
			sums[h] = s
			fmt.Printf("harness %s: paths=%d ends=%v asserts=%d queries=%d (sat %d unsat %d unknown %d) solver=%.1fs wall=%.1fs truncated=%v\n",
				h, s.Paths, s.Ends, s.Asserts, s.Solver.Queries, s.Solver.SatN, s.Solver.UnsatN, s.Solver.UnknownN, s.Solver.Seconds, s.Wall.Seconds(), s.Truncated)
			type ts struct {
				tag string
				sec float64
				n   int
				unk int
			}
			var tl []ts
			for k, v := range s.Solver.ByTag {
				tl = append(tl, ts{k, v.Seconds, v.N, v.Unknown})
			}
			sort.Slice(tl, func(i, j int) bool { return tl[i].sec > tl[j].sec })
			for i, t := range tl {
				if i >= 6 || t.sec < 1 {
					break
				}
				fmt.Printf("  solver-time %7.1fs n=%-5d unknown=%-3d %s\n", t.sec, t.n, t.unk, t.tag)
			}
			var ms []string
			for m := range s.Msgs {
				if strings.HasPrefix(m, "panic: ") {
					continue // reported as violations
				}
				ms = append(ms, m)
			}
			sort.Strings(ms)
			for _, m := range ms {
				short := m
				if len(short) > 600 {
					short = short[:600]
				}
				fmt.Printf("  inconclusive[%d] %s\n", s.Msgs[m], short)
			}
		}
		queue = again
	}

	// ---- write replay vectors ----
	rdir := filepath.Join(*verif, "replays", prop)
	if *only == "" {
		os.RemoveAll(rdir)
	}
	os.MkdirAll(rdir, 0o755)
	type cand struct {
		file string
		vf   vectorFile
	}
	var cands []cand
	seen := map[string]int{}
	for _, h := range harnesses {
		s := sums[h]
		if s == nil {
			continue
		}
		for _, v := range s.Violations {
			key := h + "|" + v.Label
			if seen[key] >= 3 {
				continue
			}
			seen[key]++
			vf := vectorFile{Property: prop, Harness: h, Tier: *tier, Label: v.Label, Detail: v.Detail, Vector: v.Vector}
			b, _ := json.MarshalIndent(vf, "", " ")
			sum := sha1.Sum(b)
			f := filepath.Join(rdir, fmt.Sprintf("%s-%x.json", h, sum[:5]))
			os.WriteFile(f, b, 0o644)
			cands = append(cands, cand{f, vf})
		}
	}

	// ---- concolic fallback: paths the engine could not continue ----
	// A sample of them is replayed natively on inputs satisfying the path
	// condition up to that point; whatever assertion fails there is a
	// violation confirmed on the real build (found by a sample, which the
	// evidence says).
	nFallback, nFallbackFailed := 0, 0
	if !*noReplay {
		var ffiles []string
		fmeta := map[string]vectorFile{}
		for _, h := range harnesses {
			s := sums[h]
			if s == nil {
				continue
			}
			for i, v := range s.Fallbacks {
				if i >= 64 {
					break
				}
				vf := vectorFile{Property: prop, Harness: h, Tier: *tier, Label: v.Label, Detail: v.Detail, Vector: v.Vector, Lenient: true}
				b, _ := json.MarshalIndent(vf, "", " ")
				sum := sha1.Sum(b)
				f := filepath.Join(rdir, fmt.Sprintf("%s-fb-%x.json", h, sum[:5]))
				os.WriteFile(f, b, 0o644)
				ffiles = append(ffiles, f)
				fmeta[f] = vf
			}
		}
		if len(ffiles) > 0 {
			outs, rerr := replay(hdir, ffiles)
			if rerr != "" {
				notes = append(notes, "fallback replay: "+rerr)
			}
			seenLab := map[string]bool{}
			for _, o := range outs {
				nFallback++
				vf := fmeta[o.File]
				labs := append([]string(nil), o.Labels...)
				if o.Panic != "" && !strings.HasPrefix(o.Panic, "nd: ") {
					labs = append(labs, "panic")
				}
				keep := false
				for _, l := range labs {
					k := vf.Harness + "|" + l
					if seenLab[k] {
						continue
					}
					seenLab[k] = true
					nFallbackFailed++
					keep = true
					nvf := vf
					nvf.Label = l
					nvf.Detail = "found by native replay of a path the engine could not continue (" + vf.Detail + ")"
					b, _ := json.MarshalIndent(nvf, "", " ")
					os.WriteFile(o.File, b, 0o644)
					cands = append(cands, cand{o.File, nvf})
				}
				if !keep {
					os.Remove(o.File)
				}
			}
			notes = append(notes, fmt.Sprintf("concolic fallback: %d sampled unsupported paths replayed natively, %d assertion labels failed", nFallback, nFallbackFailed))
			fmt.Printf("fallback: %d unsupported paths replayed natively, %d failing labels\n", nFallback, nFallbackFailed)
		}
	}

	// ---- native replay ----
	confirmed := map[string]bool{}
	replayed := 0
	var unconfirmed []string
	if len(cands) > 0 && !*noReplay {
		var files []string
		for _, c := range cands {
			files = append(files, c.file)
		}
		outs, rerr := replay(hdir, files)
		if rerr != "" {
			notes = append(notes, "replay: "+rerr)
		}
		byFile := map[string]replayOut{}
		for _, o := range outs {
			byFile[o.File] = o
		}
		for _, c := range cands {
			o, ok := byFile[c.file]
			if !ok {
				unconfirmed = append(unconfirmed, c.vf.Harness+"|"+c.vf.Label+" (no replay output)")
				continue
			}
			replayed++
			hit := false
			if strings.HasPrefix(c.vf.Label, "panic") {
				hit = o.Panic != ""
			}
			for _, l := range o.Labels {
				if l == c.vf.Label {
					hit = true
				}
			}
			if hit {
				confirmed[c.file] = true
			} else {
				unconfirmed = append(unconfirmed, fmt.Sprintf("%s|%s (native run: labels=%v panic=%q assume_failed=%v)", c.vf.Harness, c.vf.Label, o.Labels, o.Panic, o.Assume))
			}
		}
	}

	// ---- classify against known findings ----
	kf := loadKnown(filepath.Join(*verif, "known_findings.jsonl"))
	exit := 0
	nviol := 0
	var knownHit []string
	reported := map[string]bool{}
	labelConfirmed := map[string]bool{}
	for _, c := range cands {
		if confirmed[c.file] {
			labelConfirmed[c.vf.Harness+"|"+c.vf.Label] = true
		}
	}
	for _, c := range cands {
		if !confirmed[c.file] {
			continue
		}
		if reported[c.vf.Harness+"|"+c.vf.Label] {
			continue
		}
		reported[c.vf.Harness+"|"+c.vf.Label] = true
		listed := false
		for _, k := range kf {
			if k.Status == "known" && k.Property == prop && k.Harness == c.vf.Harness && k.Label == c.vf.Label {
				listed = true
				fmt.Printf("KNOWN-FINDING: property=%s %s/%s %s\n", prop, c.vf.Harness, c.vf.Label, k.What)
				knownHit = append(knownHit, c.vf.Harness+"/"+c.vf.Label)
			}
		}
		if !listed {
			nviol++
			exit = 1
			fmt.Printf("VIOLATION property=%s replay=%s\n", prop, c.file)
			fmt.Printf("  harness=%s label=%s detail=%s\n", c.vf.Harness, c.vf.Label, c.vf.Detail)
		}
	}
	var stillUnconfirmed []string
	for _, u := range unconfirmed {
		key := u
		if i := strings.Index(u, " ("); i >= 0 {
			key = u[:i]
		}
		if !labelConfirmed[key] {
			stillUnconfirmed = append(stillUnconfirmed, u)
		}
	}
	unconfirmed = stillUnconfirmed
	for _, u := range unconfirmed {
		fmt.Println("UNCONFIRMED (model did not reproduce natively; not reported as a violation):", u)
	}
	writeEvidence(*verif, prop, *tier, seed, t0, harnesses, sums, knownHit, unconfirmed, notes, nviol)
	_ = replayed
	os.Exit(exit)
}

func loadKnown(file string) []known {
	f, err := os.Open(file)
	if err != nil {
		return nil
	}
	defer f.Close()
	var out []known
	sc := bufio.NewScanner(f)
	sc.Buffer(make([]byte, 1<<20), 1<<20)
	for sc.Scan() {
		line := strings.TrimSpace(sc.Text())
		if line == "" || strings.HasPrefix(line, "#") {
			continue
		}
		var k known
		if json.Unmarshal([]byte(line), &k) == nil {
			out = append(out, k)
		}
	}
	return out
}

// replay runs the natively compiled harness on the vectors.
func replay(hdir string, files []string) ([]replayOut, string) {
	listFile := filepath.Join(os.TempDir(), fmt.Sprintf("gosymx-replay-%d.txt", os.Getpid()))
	os.WriteFile(listFile, []byte(strings.Join(files, "\n")), 0o644)
	defer os.Remove(listFile)
	cmd := exec.Command("go", "test", "-tags", "verif", "-vet=off", "-count=1", "-v", "-run", "^TestReplay$", "-timeout", "600s", ".", "-args", "-vectors="+listFile)
	cmd.Dir = hdir
	cmd.Env = append(os.Environ(), "GOFLAGS=-mod=mod", "GOPROXY=off", "GOSUMDB=off", "GOTOOLCHAIN=local")
	var buf bytes.Buffer
	cmd.Stdout = &buf
	cmd.Stderr = &buf
	err := cmd.Run()
	var outs []replayOut
	for _, line := range strings.Split(buf.String(), "\n") {
		if i := strings.Index(line, "REPLAY "); i >= 0 {
			var o replayOut
			if json.Unmarshal([]byte(line[i+7:]), &o) == nil {
				outs = append(outs, o)
			}
		}
	}
	msg := ""
	if err != nil && len(outs) < len(files) {
		s := buf.String()
		if len(s) > 2000 {
			s = s[len(s)-2000:]
		}
		msg = err.Error() + ": " + s
	}
	return outs, msg
}

func writeEvidence(verif, prop, tier string, seed int64, t0 time.Time, harnesses []string, sums map[string]*sym.Summary, knownHit, unconfirmed, notes []string, nviol int) {
	paths, trans, asserts, inconclusive := 0, int64(0), 0, 0
	q := map[string]any{}
	var qs, qsat, qunsat, qunk, qfb int
	var solverS float64
	funcs := map[string]int{}
	covers := map[string]int{}
	stubs := map[string]int{}
	perH := map[string]any{}
	var samples []any
	truncated := false
	for _, h := range harnesses {
		s := sums[h]
		if s == nil {
			continue
		}
		paths += s.Paths
		trans += s.Decisions
		asserts += s.Asserts
		qs += s.Solver.Queries
		qsat += s.Solver.SatN
		qunsat += s.Solver.UnsatN
		qunk += s.Solver.UnknownN
		qfb += s.Solver.Fallback
		solverS += s.Solver.Seconds
		if s.Truncated {
			truncated = true
		}
		for f, n := range s.Funcs {
			funcs[f] += n
		}
		for c, n := range s.Covers {
			covers[c] += n
		}
		for n, c := range s.Notes {
			stubs[n] += c
		}
		inc := 0
		for k, n := range s.Ends {
			if k != "done" && k != "assume" && k != "violation" && k != "panic" {
				inc += n
			}
		}
		inconclusive += inc
		perH[h] = map[string]any{"paths": s.Paths, "ends": s.Ends, "decisions": s.Decisions, "max_decisions_on_a_path": s.MaxDecision,
			"ssa_steps": s.Steps, "assertions_checked": s.Asserts, "wall_s": s.Wall.Seconds(), "truncated_by_budget": s.Truncated,
			"unknown_branch_queries": s.UnknownBr, "undecided_assertions": s.UnknownAs, "inconclusive": s.Msgs}
		for i, v := range s.Violations {
			if i >= 2 {
				break
			}
			samples = append(samples, map[string]any{"harness": h, "kind": "counterexample", "label": v.Label, "inputs": v.Vector})
		}
		for c := range s.Covers {
			if len(samples) < 12 {
				samples = append(samples, map[string]any{"harness": h, "kind": "covered-case", "label": c})
			}
		}
	}
	if len(samples) == 0 {
		samples = append(samples, map[string]any{"kind": "none", "note": "no path completed"})
	}
	var repoFuncs []string
	for f := range funcs {
		if strings.Contains(f, "github.com/theory/sqljson") {
			repoFuncs = append(repoFuncs, f)
		}
	}
	sort.Strings(repoFuncs)
	q["issued"], q["sat"], q["unsat"], q["unknown"], q["answered_by_portfolio"] = qs, qsat, qunsat, qunk, qfb
	if paths == 0 {
		paths = 1
	}
	if trans == 0 {
		trans = 1
	}
	ev := map[string]any{
		"property_id": prop,
		"tier":        tier,
		"seed":        seed,
		"level":       "model_checking",
		"coverage": map[string]any{
			"states":                        paths,
			"transitions":                   trans,
			"traces_validated_against_impl": len(knownHit) + nviol + len(unconfirmed),
			"samples":                       samples,
			"exhaustive":                    !truncated && inconclusive == 0,
			"explanation":                   "states = completed symbolic paths through the harness + real code (each stands for all inputs satisfying its path condition); transitions = fork decisions; traces_validated = counterexample vectors replayed against the natively compiled real code",
			"harnesses":                     perH,
			"functions_encoded_repo":        repoFuncs,
			"functions_encoded_total":       len(funcs),
			"assertions_checked":            asserts,
			"queries":                       q,
			"solver_s":                      solverS,
			"inconclusive_paths":            inconclusive,
			"cover":                         covers,
			"stubs_and_notes":               stubs,
			"known_findings_hit":            knownHit,
			"unconfirmed_models":            unconfirmed,
			"notes":                         notes,
		},
		"assumptions": []string{
			"bounded: see DESIGN.md section of this property for the bounds of each harness (tier " + tier + ")",
			"stdlib behind stubs as listed under stubs_and_notes and DESIGN.md 2.6",
			"go/ssa (x/tools v0.29.0) lowering and the engine's instruction semantics are trusted; counterexamples are validated by native replay",
		},
		"wall_s":     time.Since(t0).Seconds(),
		"violations": nviol,
	}
	os.MkdirAll(filepath.Join(verif, "evidence"), 0o755)
	b, _ := json.MarshalIndent(ev, "", " ")
	os.WriteFile(filepath.Join(verif, "evidence", prop+".json"), b, 0o644)
}
