package main

import (
	"runtime/pprof"
	"encoding/json"
	"flag"
	"fmt"
	"os"
	"sort"
	"time"

	"gosymx/sym"
)

func main() {
	dir := flag.String("dir", "/verif/harness", "harness dir")
	workers := flag.Int("j", 1, "workers")
	maxPaths := flag.Int("max", 0, "max paths")
	tmo := flag.Int("t", 10000, "solver timeout ms")
	prof := flag.String("prof", "", "cpu profile")
	flag.Parse()
	if *prof != "" {
		f, _ := os.Create(*prof)
		pprof.StartCPUProfile(f)
		defer pprof.StopCPUProfile()
	}
	t0 := time.Now()
	e, err := sym.Load(*dir, "verif")
	if err != nil {
		fmt.Println("load:", err)
		os.Exit(2)
	}
	fmt.Println("loaded in", time.Since(t0))
	for _, h := range flag.Args() {
		s, err := e.Explore(h, sym.ExploreOpts{Workers: *workers, TimeoutMS: *tmo, MaxPaths: *maxPaths, MaxViolPer: 3})
		if err != nil {
			fmt.Println(err)
			continue
		}
		fmt.Printf("== %s: paths=%d ends=%v steps=%d decisions=%d wall=%v solver=%+v\n", h, s.Paths, s.Ends, s.Steps, s.Decisions, s.Wall, s.Solver)
		var ms []string
		for m := range s.Msgs {
			ms = append(ms, m)
		}
		sort.Strings(ms)
		for _, m := range ms {
			fmt.Printf("  [%d] %s\n", s.Msgs[m], m)
		}
		for n, c := range s.Notes {
			fmt.Printf("  note[%d] %s\n", c, n)
		}
		for _, v := range s.Violations {
			b, _ := json.Marshal(v.Vector)
			fmt.Printf("  VIOL %s: %s %s\n", v.Label, v.Detail, b)
		}
	}
}
