// Package sym is a symbolic executor for Go SSA (golang.org/x/tools/go/ssa).
//
// The value model follows x/tools/go/ssa/interp, with symbolic leaves:
//
//	bool, int64 (all signed ints), uint64 (all unsigned ints), float64, string   concrete scalars
//	*smt.Term                                                                   symbolic scalar (Bool / BV(w) / FP64)
//	*SymStr                                                                     string with symbolic bytes (concrete length)
//	*AbsNum                                                                     abstract json.Number text
//	Struct, Array ([]Value)                                                     aggregates (copied on load/store)
//	*Value                                                                      pointer
//	Slice{A []Value}                                                            slice (len/cap of A)
//	*Map                                                                        map (association list)
//	Iface{T,V}                                                                  interface value (T == nil: nil interface)
//	*ssa.Function, *ssa.Builtin, *Closure                                       functions
//	Tuple                                                                       multi-value
//	*Chan, *Native, iterators
package sym

import (
	"fmt"
	"go/types"
	"math"
	"strings"
	"time"

	"golang.org/x/tools/go/ssa"

	"gosymx/smt"
)

type Value = any

type Struct []Value
type Array []Value
type Tuple []Value

type Slice struct{ A []Value }

type Closure struct {
	Fn  *ssa.Function
	Env []Value
}

type Iface struct {
	T types.Type
	V Value
	L *Lazy // non-nil: not yet forced
}

type Chan struct{ Closed bool }

// Native wraps an opaque Go value (time.Time, *time.Location, *regexp.Regexp ...).
type Native struct{ V any }

// SymStr is a string of concrete length whose bytes are uint64 or *smt.Term (BV8).
type SymStr struct{ B []Value }

// AbsNum is an abstract json.Number text.
// Mode 0: integer literal with int64 value I (Float64() = RNE(I)).
// Mode 1: literal that ParseInt rejects and ParseFloat accepts as finite F.
// Mode 2: literal outside float64 range (e.g. 1e400): both conversions fail.
type AbsNum struct {
	Mode int
	I    Value // int64 or *smt.Term BV64
	F    Value // float64 or *smt.Term FP
}

type Map struct {
	Keys   []Value
	Vals   []Value
	KT     types.Type
	Frozen bool
}

type mapIter struct {
	m *Map
	i int
	n int // snapshot of len at range start
}

type strIter struct {
	s Value // string or *SymStr
	i int
}

// Lazy is the shared cell of a not-yet-forced nd.JSON value.
type Lazy struct {
	Spec   JSONSpec
	Forced bool
	Val    Iface
	ID     int
	// children for materialisation
	Kind  int
	Elems []*Lazy  // array elements / object values
	Keys  []string // object keys
	Leaf  Value    // scalar payload (bool/float/string/absnum ...)
}

type JSONSpec struct {
	Depth  int
	Width  int
	Kinds  int
	StrLen int
	Keys   []string
	ASCII  bool
}

const (
	KNull = 1 << iota
	KBool
	KFloat
	KNumber
	KInt64
	KString
	KArray
	KObject
	KNumOOR // json.Number outside float64 range (1e400)
)

func isSym(v Value) bool {
	switch v.(type) {
	case *smt.Term, *SymStr, *AbsNum:
		return true
	}
	return false
}

// zero returns the zero value of type t.
func zero(t types.Type) Value {
	if n, ok := t.(*types.Named); ok && n.Obj().Pkg() != nil && n.Obj().Pkg().Path() == "time" && n.Obj().Name() == "Time" {
		return &Native{V: time.Time{}}
	}
	switch t := t.Underlying().(type) {
	case *types.Basic:
		switch {
		case t.Kind() == types.UntypedNil:
			return Iface{}
		case t.Info()&types.IsBoolean != 0:
			return false
		case t.Info()&types.IsString != 0:
			return ""
		case t.Info()&types.IsFloat != 0:
			return float64(0)
		case t.Info()&types.IsUnsigned != 0:
			return uint64(0)
		case t.Info()&types.IsInteger != 0:
			return int64(0)
		case t.Kind() == types.UnsafePointer:
			return (*Value)(nil)
		case t.Info()&types.IsComplex != 0:
			return complex128(0)
		}
	case *types.Pointer:
		return (*Value)(nil)
	case *types.Array:
		a := make(Array, t.Len())
		for i := range a {
			a[i] = zero(t.Elem())
		}
		return a
	case *types.Struct:
		s := make(Struct, t.NumFields())
		for i := range s {
			s[i] = zero(t.Field(i).Type())
		}
		return s
	case *types.Tuple:
		s := make(Tuple, t.Len())
		for i := range s {
			s[i] = zero(t.At(i).Type())
		}
		return s
	case *types.Slice:
		return Slice{}
	case *types.Map:
		return (*Map)(nil)
	case *types.Chan:
		return (*Chan)(nil)
	case *types.Interface:
		return Iface{}
	case *types.Signature:
		return (*ssa.Function)(nil)
	}
	panic(fmt.Sprintf("zero: unexpected type %v", t))
}

// copyVal returns a copy of v with value semantics (aggregates are deep-copied).
func copyVal(v Value) Value {
	switch v := v.(type) {
	case Struct:
		c := make(Struct, len(v))
		for i := range v {
			c[i] = copyVal(v[i])
		}
		return c
	case Array:
		c := make(Array, len(v))
		for i := range v {
			c[i] = copyVal(v[i])
		}
		return c
	}
	return v
}

// store writes v to *addr preserving aliasing of sub-objects.
func store(addr *Value, v Value) {
	switch v := v.(type) {
	case Struct:
		if lhs, ok := (*addr).(Struct); ok && len(lhs) == len(v) {
			for i := range lhs {
				store(&lhs[i], v[i])
			}
			return
		}
		*addr = copyVal(v)
	case Array:
		if lhs, ok := (*addr).(Array); ok && len(lhs) == len(v) {
			for i := range lhs {
				store(&lhs[i], v[i])
			}
			return
		}
		*addr = copyVal(v)
	default:
		*addr = v
	}
}

func intWidth(t types.Type) (w int, signed bool) {
	b, ok := t.Underlying().(*types.Basic)
	if !ok {
		panic(fmt.Sprintf("intWidth: %v", t))
	}
	switch b.Kind() {
	case types.Int8:
		return 8, true
	case types.Int16:
		return 16, true
	case types.Int32:
		return 32, true
	case types.Int64, types.Int, types.UntypedInt, types.UntypedRune:
		return 64, true
	case types.Uint8:
		return 8, false
	case types.Uint16:
		return 16, false
	case types.Uint32:
		return 32, false
	case types.Uint64, types.Uint, types.Uintptr:
		return 64, false
	}
	panic(fmt.Sprintf("intWidth: %v", t))
}

func isInteger(t types.Type) bool {
	b, ok := t.Underlying().(*types.Basic)
	return ok && b.Info()&types.IsInteger != 0
}
func isFloat(t types.Type) bool {
	b, ok := t.Underlying().(*types.Basic)
	return ok && b.Info()&types.IsFloat != 0
}
func isString(t types.Type) bool {
	b, ok := t.Underlying().(*types.Basic)
	return ok && b.Info()&types.IsString != 0
}
func isBool(t types.Type) bool {
	b, ok := t.Underlying().(*types.Basic)
	return ok && b.Info()&types.IsBoolean != 0
}

// wrapInt normalises a concrete integer to the width/sign of t.
func wrapInt(u uint64, t types.Type) Value {
	w, s := intWidth(t)
	if s {
		if w == 64 {
			return int64(u)
		}
		sh := uint(64 - w)
		return int64(u<<sh) >> sh
	}
	if w == 64 {
		return u
	}
	return u & (uint64(1)<<uint(w) - 1)
}

func asU64(v Value) uint64 {
	switch v := v.(type) {
	case int64:
		return uint64(v)
	case uint64:
		return v
	}
	panic(fmt.Sprintf("asU64: %T", v))
}

func asInt(v Value) int {
	switch v := v.(type) {
	case int64:
		return int(v)
	case uint64:
		return int(v)
	}
	panic(fmt.Sprintf("asInt: %T %v", v, v))
}

func describe(v Value) string {
	switch v := v.(type) {
	case nil:
		return "<nil>"
	case *smt.Term:
		s := v.String()
		if len(s) > 80 {
			s = s[:80] + "..."
		}
		return "sym:" + s
	case *SymStr:
		var sb strings.Builder
		sb.WriteString("symstr[")
		for i, b := range v.B {
			if i > 0 {
				sb.WriteByte(' ')
			}
			if u, ok := b.(uint64); ok {
				fmt.Fprintf(&sb, "%q", rune(u))
			} else {
				sb.WriteString("?")
			}
		}
		sb.WriteString("]")
		return sb.String()
	case Iface:
		if v.L != nil && !v.L.Forced {
			return "lazy"
		}
		if v.T == nil {
			return "nil"
		}
		return fmt.Sprintf("(%v)%s", v.T, describe(v.V))
	case Struct:
		return fmt.Sprintf("struct%d", len(v))
	case Slice:
		return fmt.Sprintf("slice[%d]", len(v.A))
	case float64:
		if math.IsNaN(v) {
			return "NaN"
		}
	}
	return fmt.Sprintf("%v", v)
}
