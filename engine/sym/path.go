package sym

import (
	"fmt"
	"go/types"
	"os"
	"sort"
	"strconv"
	"strings"
	"sync"
	"sync/atomic"

	"golang.org/x/tools/go/ssa"

	"gosymx/smt"
)

// Engine holds the loaded program; shared (read-only) by all workers.
type Engine struct {
	Prog    *ssa.Program
	Harness *ssa.Package
	NDPkg   *ssa.Package

	mu     sync.Mutex
	fnInfo map[*ssa.Function]*fnInfo
	violSeen sync.Map // label -> *int32: violations already recorded (saturation)
	fallbackSeen, fallbackTaken int64 // unsupported paths met / sampled for native replay (per Explore)
	domCache sync.Map // hash of (variables, applied conjuncts) -> *domEntry
	qcache sync.Map // canonical query text -> smt.Result (shared by all workers)

	// type handles
	tAny, tFloat64, tInt64, tString, tBool, tSliceAny, tMapAny, tJSONNumber types.Type
	tError                                                                types.Type

	InitPkgs map[string]bool // packages whose init is executed

	MaxSteps     int
	Debug        bool
	Thorough     bool
	FormatErrors bool // build real error messages (needed only when messages are observed)
}

type fnInfo struct {
	index  map[ssa.Value]int
	n      int
	consts map[*ssa.Const]Value
}

// abort terminates the current path (never visible to interpreted code).
type abort struct {
	kind string // "assume", "violation", "budget", "unsupported", "unknown", "done"
	msg  string
}

// goPanic is a panic of the interpreted program.
type goPanic struct {
	v   Value // Iface
	msg string
	at  string
}

type InputRec struct {
	Kind string // bool,int,uint,float,choice,string,number,json
	Val  Value  // term / concrete / *SymStr / *AbsNum / *Lazy
	Type types.Type
}

type Violation struct {
	Label  string
	Detail string
	Vector []any // materialised inputs
	Log    []int32
	Trace  string
}

// Path is one symbolic execution from the harness entry.
type Path struct {
	E      *Engine
	W      *Worker
	C      *smt.Ctx
	S      *smt.Solver
	prefix []int32
	pos    int
	log    []int32
	steps  int
	nvars  int
	inputs []InputRec
	lazyN  int

	covers  map[string]bool
	pools   map[*Value][]Value // sync.Pool contents (environment model)
	syncMaps map[*Value][][2]Value // sync.Map contents
	asserts int

	pendingChildren [][]int32
	violations      []*Violation
	unknownBranches int
	unknownAsserts  int
	notes           []string
	funcs           map[*ssa.Function]int

	frozen    []frozenRange
	frozenOn  bool
	frozenHit string
	dirty     bool // wrote to worker-shared (init-time) memory

	models  []*cachedModel
	formatErrors     bool
	smallInts        bool // FormatInt(symbolic) is interpreted (harness bounds the value)
	exactSmallFloats bool // FormatFloat of integral |x| < 1000 is computed digit by digit (C16 decimal)
	known   map[int]bool  // term id -> truth value implied syntactically by the path condition
	subst   map[int]*smt.Term // term id -> constant it is known to equal
	simpVer int
	simpMemo map[int]*smt.Term
	simpMemoVer int
	KnownHits int
	QCacheHits int
	varIdx  map[int]*smt.Term
	domains map[string]*domain
	EnumHits int
	varsOf  map[int][]int // term id -> sorted variable ids
	Sliced  int
	CacheHits int
	stack   []*ssa.Function
	errStack string
	bypass  map[*ssa.Function]int
	addrOf  map[any]*smt.Term // symbolic addresses for reflect.Pointer
	depth   int
	objAddr []*smt.Term
}

type frozenRange struct{ lo, hi uintptr }

func (p *Path) abortf(kind, format string, args ...any) {
	panic(abort{kind, fmt.Sprintf(format, args...)})
}

func (p *Path) unsupported(format string, args ...any) {
	panic(abort{"unsupported", fmt.Sprintf(format, args...)})
}

func (p *Path) newVar(prefix string, s smt.Sort) *smt.Term {
	p.nvars++
	return p.C.Var(fmt.Sprintf("%s%d", prefix, p.nvars), s)
}

// assume adds c to the path condition.
func (p *Path) assume(c *smt.Term) {
	if c == nil {
		return
	}
	if v, ok := c.BoolVal(); ok {
		if !v {
			p.abortf("assume", "assumption false")
		}
		return
	}
	p.S.Assert(c)
	p.learn(c, true)
}

// learn records the truth value of c (and of its syntactic parts) on this path.
func (p *Path) learn(c *smt.Term, val bool) {
	if p.known == nil {
		p.known = map[int]bool{}
	}
	p.known[c.ID] = val
	p.known[p.C.Not(c).ID] = !val
	p.simpVer++
	if c.Op == smt.OEq && val {
		p.learnEq(c.Args[0], c.Args[1])
		p.learnEq(c.Args[1], c.Args[0])
	}
	switch c.Op {
	case smt.ONot:
		p.known[c.Args[0].ID] = !val
		if c.Args[0].Op == smt.OOr && val {
			// ¬(x ∨ y): both false
			p.learn(c.Args[0].Args[0], false)
			p.learn(c.Args[0].Args[1], false)
		}
	case smt.OAnd:
		if val {
			p.learn(c.Args[0], true)
			p.learn(c.Args[1], true)
		}
	case smt.OOr:
		if !val {
			p.learn(c.Args[0], false)
			p.learn(c.Args[1], false)
		}
	}
}

// choose picks one of len(conds) alternatives; conds[i] == nil means the
// alternative is unconditionally available. Feasible alternatives that are
// not taken are queued as new path prefixes.
func (p *Path) choose(conds []*smt.Term) int {
	if p.pos < len(p.prefix) {
		d := int(p.prefix[p.pos])
		p.pos++
		p.log = append(p.log, int32(d))
		if d >= len(conds) {
			p.abortf("unknown", "replay divergence: decision %d of %d", d, len(conds))
		}
		p.assume(conds[d])
		return d
	}
	var feas []int
	for i, c := range conds {
		if c == nil {
			feas = append(feas, i)
			continue
		}
		if v, ok := c.BoolVal(); ok {
			if v {
				feas = append(feas, i)
			}
			continue
		}
		// binary optimisation: if all earlier alternatives were infeasible and
		// this is the last one, it must be feasible (the path condition is).
		if i == len(conds)-1 && len(feas) == 0 && p.exhaustive(conds) {
			feas = append(feas, i)
			continue
		}
		switch p.feasible(c) {
		case smt.Sat:
			feas = append(feas, i)
		case smt.Unknown:
			p.unknownBranches++
			feas = append(feas, i)
		}
	}
	if len(feas) == 0 {
		p.abortf("assume", "no feasible alternative")
	}
	d := feas[0]
	for _, alt := range feas[1:] {
		child := make([]int32, len(p.log)+1)
		copy(child, p.log)
		child[len(p.log)] = int32(alt)
		p.pendingChildren = append(p.pendingChildren, child)
	}
	p.log = append(p.log, int32(d))
	p.pos++
	p.assume(conds[d])
	return d
}

// chooseVerified is choose for alternatives already known to be feasible.
func (p *Path) chooseVerified(conds []*smt.Term) int {
	if p.pos < len(p.prefix) {
		return p.choose(conds)
	}
	if len(conds) == 0 {
		p.abortf("assume", "no feasible alternative")
	}
	for alt := 1; alt < len(conds); alt++ {
		child := make([]int32, len(p.log)+1)
		copy(child, p.log)
		child[len(p.log)] = int32(alt)
		p.pendingChildren = append(p.pendingChildren, child)
	}
	p.log = append(p.log, 0)
	p.pos++
	p.assume(conds[0])
	return 0
}

// exhaustive reports whether conds is a {c, ¬c} pair.
func (p *Path) exhaustive(conds []*smt.Term) bool {
	if len(conds) != 2 || conds[0] == nil || conds[1] == nil {
		return false
	}
	return p.C.Not(conds[0]) == conds[1]
}

// branch forks on a boolean value and returns the concrete outcome.
func (p *Path) branch(v Value) bool {
	switch v := v.(type) {
	case bool:
		return v
	case *smt.Term:
		if b, ok := v.BoolVal(); ok {
			return b
		}
		// known facts are a deterministic function of the decisions taken so
		// far, so simplification is the same during prefix replay
		v = p.simplify(v)
		if b, ok := v.BoolVal(); ok {
			return b
		}
		return p.choose([]*smt.Term{v, p.C.Not(v)}) == 0
	}
	panic(fmt.Sprintf("branch on %T", v))
}

// concretizeInt forks over the feasible values lo..hi of a symbolic integer.
func (p *Path) concretizeRange(t *smt.Term, lo, hi int64) int64 {
	t = p.simplify(t)
	if v, ok := t.BVVal(); ok {
		if t.Sort.W < 64 {
			return int64(v)
		}
		return int64(v)
	}
	n := int(hi - lo + 1)
	conds := make([]*smt.Term, n)
	for i := 0; i < n; i++ {
		conds[i] = p.C.Eq(t, p.C.BVS(lo+int64(i), t.Sort.W))
	}
	return lo + int64(p.choose(conds))
}

func (p *Path) note(s string) {
	for _, n := range p.notes {
		if n == s {
			return
		}
	}
	p.notes = append(p.notes, s)
}

// saturated reports whether enough counterexamples were recorded for label.
func (p *Path) saturated(label string) bool {
	v, _ := p.E.violSeen.LoadOrStore(label, new(int32))
	return atomic.LoadInt32(v.(*int32)) >= 3
}

func (p *Path) countViolation(label string) {
	v, _ := p.E.violSeen.LoadOrStore(label, new(int32))
	atomic.AddInt32(v.(*int32), 1)
}

func (p *Path) violation(label, detail string) {
	if p.saturated(label) {
		panic(abort{"violation", label})
	}
	// obtain a model for the current path condition
	v := &Violation{Label: label, Detail: detail, Log: append([]int32(nil), p.log...)}
	vec, ok := p.materialise(nil)
	if !ok {
		p.note("violation without model (solver unknown): " + label)
		p.abortf("unknown", "violation %s but no model", label)
	}
	v.Vector = vec
	p.violations = append(p.violations, v)
	p.countViolation(label)
	panic(abort{"violation", label})
}

func fnName(fn *ssa.Function) string {
	s := fn.String()
	return s
}

func shortPos(prog *ssa.Program, fn *ssa.Function) string {
	pos := prog.Fset.Position(fn.Pos())
	f := pos.Filename
	if i := strings.LastIndex(f, "/"); i >= 0 {
		f = f[i+1:]
	}
	return fmt.Sprintf("%s:%d", f, pos.Line)
}

func (p *Path) stackString() string {
	var sb strings.Builder
	for i := len(p.stack) - 1; i >= 0 && i >= len(p.stack)-12; i-- {
		sb.WriteString("  in " + p.stack[i].String() + "\n")
	}
	return sb.String()
}

type cachedModel struct {
	m     map[string]smt.ModelVal
	valid int // number of path-condition conjuncts checked against m
	memo  smt.EvalMemo
}

// query decides sat(path condition ∧ cond), first against cached models.
func (p *Path) query(cond *smt.Term) (smt.Result, map[string]smt.ModelVal) {
	if cond != nil {
		if v, ok := cond.BoolVal(); ok {
			if !v {
				return smt.Unsat, nil
			}
			cond = nil
		}
	}
	asserted := p.S.Asserted()
	keep := p.models[:0]
	var hit map[string]smt.ModelVal
	for _, cm := range p.models {
		ok := true
		for ; cm.valid < len(asserted); cm.valid++ {
			v, evok := smt.Eval(asserted[cm.valid], cm.m, cm.memo)
			if !evok || v != 1 {
				ok = false
				break
			}
		}
		if !ok {
			continue
		}
		keep = append(keep, cm)
		if hit == nil {
			if cond == nil {
				hit = cm.m
			} else if v, evok := smt.Eval(cond, cm.m, cm.memo); evok && v == 1 {
				hit = cm.m
			}
		}
	}
	p.models = keep
	if hit != nil {
		p.CacheHits++
		return smt.Sat, hit
	}
	res, m := p.S.Model(cond, p.C.Vars)
	if res == smt.Sat && m != nil {
		cm := &cachedModel{m: m, valid: len(asserted), memo: smt.NewMemo()}
		p.models = append(p.models, cm)
		if len(p.models) > 6 {
			p.models = p.models[1:]
		}
	}
	return res, m
}

// termVars returns the ids of the variables (and uninterpreted functions,
// as negative pseudo-ids) occurring in t.
func (p *Path) termVars(t *smt.Term) []int {
	if p.varsOf == nil {
		p.varsOf = map[int][]int{}
	}
	if v, ok := p.varsOf[t.ID]; ok {
		return v
	}
	set := map[int]bool{}
	seen := map[int]bool{}
	var walk func(x *smt.Term)
	walk = func(x *smt.Term) {
		if seen[x.ID] {
			return
		}
		seen[x.ID] = true
		if v, ok := p.varsOf[x.ID]; ok {
			for _, id := range v {
				set[id] = true
			}
			return
		}
		switch x.Op {
		case smt.OVar:
			set[x.ID] = true
		case smt.OApply:
			if _, ok := smt.FuncImpl[x.Name]; ok {
				// a fixed (evaluable) function does not relate its uses
				break
			}
			// all applications of one function are related
			h := 0
			for _, c := range x.Name {
				h = h*31 + int(c)
			}
			set[-(h&0x3fffffff)-1] = true
		}
		for _, a := range x.Args {
			walk(a)
		}
	}
	walk(t)
	out := make([]int, 0, len(set))
	for id := range set {
		out = append(out, id)
	}
	sort.Ints(out) // deterministic: decisions are replayed by index
	p.varsOf[t.ID] = out
	return out
}

// slice returns the path-condition conjuncts that (transitively) share
// variables with cond.
func (p *Path) pcSlice(cond *smt.Term) []*smt.Term {
	asserted := p.S.Asserted()
	rel := map[int]bool{}
	for _, v := range p.termVars(cond) {
		rel[v] = true
	}
	used := make([]bool, len(asserted))
	var out []*smt.Term
	for changed := true; changed; {
		changed = false
		for i, a := range asserted {
			if used[i] {
				continue
			}
			vs := p.termVars(a)
			hit := false
			for _, v := range vs {
				if rel[v] {
					hit = true
					break
				}
			}
			if hit {
				used[i] = true
				out = append(out, a)
				for _, v := range vs {
					if !rel[v] {
						rel[v] = true
						changed = true
					}
				}
			}
		}
	}
	return out
}

// feasible decides sat(path condition ∧ cond) without needing a model:
// cached models first, then an independence-sliced solver query.
func (p *Path) feasible(cond *smt.Term) smt.Result {
	if v, ok := cond.BoolVal(); ok {
		if v {
			return smt.Sat
		}
		return smt.Unsat
	}
	if v, ok := p.known[cond.ID]; ok {
		p.KnownHits++
		if v {
			return smt.Sat
		}
		return smt.Unsat
	}
	if sc := p.simplify(cond); sc != cond {
		if v, ok := sc.BoolVal(); ok {
			p.KnownHits++
			if v {
				return smt.Sat
			}
			return smt.Unsat
		}
		cond = sc
	}
	asserted := p.S.Asserted()
	keep := p.models[:0]
	hit := false
	for _, cm := range p.models {
		ok := true
		for ; cm.valid < len(asserted); cm.valid++ {
			v, evok := smt.Eval(asserted[cm.valid], cm.m, cm.memo)
			if !evok || v != 1 {
				ok = false
				break
			}
		}
		if !ok {
			continue
		}
		keep = append(keep, cm)
		if !hit {
			if v, evok := smt.Eval(cond, cm.m, cm.memo); evok && v == 1 {
				hit = true
			}
		}
	}
	p.models = keep
	if hit {
		p.CacheHits++
		return smt.Sat
	}
	sl := p.pcSlice(cond)
	if v := p.smallDomain(cond, sl); v != nil {
		if sat, ok := p.enumerate(v, cond, sl); ok {
			p.EnumHits++
			if sat {
				return smt.Sat
			}
			return smt.Unsat
		}
	}
	key := canonKey(cond, sl)
	if v, ok := p.E.qcache.Load(key); ok {
		p.QCacheHits++
		return v.(smt.Result)
	}
	p.Sliced++
	r := p.S.CheckSet(sl, cond)
	if r != smt.Unknown {
		p.E.qcache.Store(key, r)
	}
	if logQ != nil {
		var sb strings.Builder
		fmt.Fprintf(&sb, "%v | %s", r, cond.String())
		for _, a := range sl {
			sb.WriteString(" || " + a.String())
		}
		logQ(sb.String())
	}
	return r
}

// learnEq records x == k for a constant k, looking through extensions.
func (p *Path) learnEq(x, k *smt.Term) {
	if !k.IsConst() || x.IsConst() {
		return
	}
	if p.subst == nil {
		p.subst = map[int]*smt.Term{}
	}
	p.subst[x.ID] = k
	if (x.Op == smt.OZext || x.Op == smt.OSext) && k.Sort.K == smt.KBV && k.Sort.W <= 64 {
		in := x.Args[0]
		p.learnEq(in, p.C.BV(k.U, in.Sort.W))
	}
}

// simplify rewrites t under the syntactically known facts of this path.
func (p *Path) simplify(t *smt.Term) *smt.Term {
	if len(p.known) == 0 && len(p.subst) == 0 {
		return t
	}
	if t.IsConst() {
		return t
	}
	if p.simpMemo == nil || p.simpMemoVer != p.simpVer {
		p.simpMemo = map[int]*smt.Term{}
		p.simpMemoVer = p.simpVer
	}
	memo := p.simpMemo
	var walk func(x *smt.Term) *smt.Term
	walk = func(x *smt.Term) *smt.Term {
		if k, ok := p.subst[x.ID]; ok {
			return k
		}
		if x.Leaf() {
			if x.Sort.K == smt.KBool && x.Op == smt.OVar {
				if v, ok := p.known[x.ID]; ok {
					return p.C.Bool(v)
				}
			}
			return x
		}
		if r, ok := memo[x.ID]; ok {
			return r
		}
		if x.Sort.K == smt.KBool {
			if v, ok := p.known[x.ID]; ok {
				r := p.C.Bool(v)
				memo[x.ID] = r
				return r
			}
		}
		changed := false
		args := make([]*smt.Term, len(x.Args))
		for i, a := range x.Args {
			args[i] = walk(a)
			if args[i] != a {
				changed = true
			}
		}
		r := x
		if changed {
			r = p.C.Rebuild(x, args)
		}
		memo[x.ID] = r
		return r
	}
	return walk(t)
}

var logQ func(string)

func init() {
	if f := os.Getenv("GOSYMX_LOGQ"); f != "" {
		fh, err := os.Create(f)
		if err == nil {
			var mu sync.Mutex
			logQ = func(s string) { mu.Lock(); fh.WriteString(s + "\n"); mu.Unlock() }
		}
	}
}

// canonKey serialises a query (condition + relevant path-condition slice) up
// to renaming of variables, so that structurally identical queries met on
// different paths share one solver call.
func canonKey(cond *smt.Term, sl []*smt.Term) string {
	var sb strings.Builder
	ids := map[int]int{}
	vars := map[string]int{}
	var walk func(t *smt.Term) int
	walk = func(t *smt.Term) int {
		if n, ok := ids[t.ID]; ok {
			return n
		}
		args := make([]int, len(t.Args))
		for i, a := range t.Args {
			args[i] = walk(a)
		}
		n := len(ids)
		ids[t.ID] = n
		sb.WriteByte('(')
		sb.WriteString(strconv.Itoa(int(t.Op)))
		sb.WriteByte(' ')
		sb.WriteString(strconv.Itoa(int(t.Sort.K)))
		sb.WriteByte(':')
		sb.WriteString(strconv.Itoa(t.Sort.W))
		sb.WriteByte(' ')
		sb.WriteString(strconv.FormatUint(t.U, 16))
		if t.Op == smt.OVar {
			v, ok := vars[t.Name]
			if !ok {
				v = len(vars)
				vars[t.Name] = v
			}
			sb.WriteString(" v")
			sb.WriteString(strconv.Itoa(v))
		} else if t.Name != "" {
			sb.WriteByte(' ')
			sb.WriteString(t.Name)
		}
		for _, a := range args {
			sb.WriteByte(' ')
			sb.WriteString(strconv.Itoa(a))
		}
		sb.WriteByte(')')
		return n
	}
	sb.WriteString(strconv.Itoa(walk(cond)))
	for _, a := range sl {
		sb.WriteByte('|')
		sb.WriteString(strconv.Itoa(walk(a)))
	}
	return sb.String()
}

// smallDomain returns the narrow variables (<= 16 bits in total) that cond
// and its path-condition slice depend on, if that is all they depend on.
func (p *Path) smallDomain(cond *smt.Term, sl []*smt.Term) []*smt.Term {
	var vs []*smt.Term
	bits := 0
	check := func(t *smt.Term) bool {
		for _, id := range p.termVars(t) {
			if id < 0 {
				return false
			}
			found := false
			for _, v := range vs {
				if v.ID == id {
					found = true
				}
			}
			if found {
				continue
			}
			v := p.varByID(id)
			if v == nil {
				return false
			}
			w := 1
			if v.Sort.K == smt.KBV {
				w = v.Sort.W
			} else if v.Sort.K != smt.KBool {
				return false
			}
			bits += w
			if bits > 16 {
				return false
			}
			vs = append(vs, v)
		}
		return true
	}
	if !check(cond) {
		return nil
	}
	for _, a := range sl {
		if !check(a) {
			return nil
		}
	}
	if len(vs) == 0 {
		return nil
	}
	return vs
}

func (p *Path) varByID(id int) *smt.Term {
	if p.varIdx == nil {
		p.varIdx = map[int]*smt.Term{}
	}
	if t, ok := p.varIdx[id]; ok {
		return t
	}
	for _, v := range p.C.Vars {
		p.varIdx[v.ID] = v
	}
	return p.varIdx[id]
}

type domain struct {
	vs      []*smt.Term
	widths  []uint
	hash    uint64
	assigns []uint32 // packed assignments still consistent with the path condition
	upTo    int      // asserted conjuncts already applied
	bad     bool     // some conjunct could not be evaluated
}

func (d *domain) model(a uint32, m map[string]smt.ModelVal) {
	x := a
	for i, v := range d.vs {
		m[v.Name] = smt.ModelVal{Sort: v.Sort, U: uint64(x & (1<<d.widths[i] - 1))}
		x >>= d.widths[i]
	}
}

// domainFor returns the surviving assignments of the narrow variables vs
// under all asserted conjuncts that mention only those variables; it is kept
// incrementally along the path.
func (p *Path) domainFor(vs []*smt.Term) *domain {
	key := ""
	for _, v := range vs {
		key += v.Name + ","
	}
	if p.domains == nil {
		p.domains = map[string]*domain{}
	}
	d := p.domains[key]
	if d == nil {
		d = &domain{vs: vs}
		total := uint(0)
		for _, v := range vs {
			w := uint(1)
			if v.Sort.K == smt.KBV {
				w = uint(v.Sort.W)
			}
			d.widths = append(d.widths, w)
			total += w
		}
		d.assigns = make([]uint32, 1<<total)
		for i := range d.assigns {
			d.assigns[i] = uint32(i)
		}
		d.hash = fnv64(uint64(total), key)
		p.domains[key] = d
	}
	if d.bad {
		return d
	}
	in := map[int]bool{}
	for _, v := range vs {
		in[v.ID] = true
	}
	asserted := p.S.Asserted()
	m := map[string]smt.ModelVal{}
	for ; d.upTo < len(asserted); d.upTo++ {
		a := asserted[d.upTo]
		tv := p.termVars(a)
		if len(tv) == 0 {
			continue
		}
		sub := true
		for _, id := range tv {
			if !in[id] {
				sub = false
				break
			}
		}
		if !sub {
			continue
		}
		// filtered sets are shared between paths (siblings apply the same
		// conjuncts in the same order)
		h := fnv64(d.hash, termKey(a))
		if v, ok := p.E.domCache.Load(h); ok {
			ent := v.(*domEntry)
			if ent.bad {
				d.bad = true
				return d
			}
			d.assigns, d.hash = ent.assigns, h
			continue
		}
		keep := make([]uint32, 0, len(d.assigns))
		bad := false
		for _, as := range d.assigns {
			d.model(as, m)
			r, ok := smt.Eval(a, m, smt.NewMemo())
			if !ok {
				bad = true
				break
			}
			if r == 1 {
				keep = append(keep, as)
			}
		}
		p.E.domCache.Store(h, &domEntry{assigns: keep, bad: bad})
		if bad {
			d.bad = true
			return d
		}
		d.assigns, d.hash = keep, h
	}
	return d
}

type domEntry struct {
	assigns []uint32
	bad     bool
}

func fnv64(seed uint64, s string) uint64 {
	h := seed ^ 14695981039346656037
	for i := 0; i < len(s); i++ {
		h ^= uint64(s[i])
		h *= 1099511628211
	}
	return h
}

// termKey serialises a term (as a DAG) with its real variable names.
func termKey(t *smt.Term) string {
	var sb strings.Builder
	ids := map[int]int{}
	var walk func(t *smt.Term) int
	walk = func(t *smt.Term) int {
		if n, ok := ids[t.ID]; ok {
			return n
		}
		args := make([]int, len(t.Args))
		for i, a := range t.Args {
			args[i] = walk(a)
		}
		n := len(ids)
		ids[t.ID] = n
		sb.WriteByte('(')
		sb.WriteString(strconv.Itoa(int(t.Op)))
		sb.WriteByte(' ')
		sb.WriteString(strconv.Itoa(t.Sort.W))
		sb.WriteByte(' ')
		sb.WriteString(strconv.FormatUint(t.U, 16))
		sb.WriteByte(' ')
		sb.WriteString(t.Name)
		for _, a := range args {
			sb.WriteByte(' ')
			sb.WriteString(strconv.Itoa(a))
		}
		sb.WriteByte(')')
		return n
	}
	walk(t)
	return sb.String()
}

// enumerate decides sat(slice ∧ cond) by evaluating cond on the surviving
// assignments of the narrow variables; ok is false when evaluation fails.
func (p *Path) enumerate(vs []*smt.Term, cond *smt.Term, sl []*smt.Term) (sat bool, ok bool) {
	d := p.domainFor(vs)
	if d.bad {
		return false, false
	}
	ck := fnv64(d.hash^0x9e3779b97f4a7c15, termKey(cond))
	if v, hit := p.E.domCache.Load(ck); hit {
		r := v.(int)
		return r == 1, r != 2
	}
	res := 0
	m := map[string]smt.ModelVal{}
	for _, as := range d.assigns {
		d.model(as, m)
		r, evok := smt.Eval(cond, m, smt.NewMemo())
		if !evok {
			res = 2
			break
		}
		if r == 1 {
			res = 1
			break
		}
	}
	p.E.domCache.Store(ck, res)
	return res == 1, res != 2
}

// enumValues lists the feasible values of t when it depends on narrow
// variables only (nil otherwise).
func (p *Path) enumValues(t *smt.Term) []uint64 {
	sl := p.pcSlice(t)
	vs := p.smallDomain(t, sl)
	if vs == nil {
		return nil
	}
	d := p.domainFor(vs)
	if d.bad {
		return nil
	}
	ck := fnv64(d.hash^0x51ed270b27b4f3cf, termKey(t))
	if v, hit := p.E.domCache.Load(ck); hit {
		return v.([]uint64)
	}
	seen := map[uint64]bool{}
	var out []uint64
	m := map[string]smt.ModelVal{}
	for _, as := range d.assigns {
		d.model(as, m)
		r, evok := smt.Eval(t, m, smt.NewMemo())
		if !evok {
			out = nil
			break
		}
		if !seen[r] {
			seen[r] = true
			out = append(out, r)
			if len(out) > 256 {
				out = nil
				break
			}
		}
	}
	sort.Slice(out, func(i, j int) bool { return out[i] < out[j] })
	p.E.domCache.Store(ck, out)
	return out
}

