package sym

import (
	"encoding/json"
	"fmt"
	"go/types"
	"math"
	"reflect"
	"regexp"
	"regexp/syntax"
	"strconv"
	"strings"
	"time"
	"unicode"
	"unicode/utf8"

	"golang.org/x/tools/go/ssa"

	"gosymx/smt"
)

var externals = map[string]extFn{}

func allConcrete(args []Value) bool {
	for _, a := range args {
		switch a := a.(type) {
		case *smt.Term, *SymStr, *AbsNum:
			return false
		case Slice:
			for _, e := range a.A {
				if isSym(e) {
					return false
				}
			}
		case Iface:
			if a.L != nil && !a.L.Forced {
				return false
			}
			if isSym(a.V) {
				return false
			}
		}
	}
	return true
}

// errorsNew builds an *errors.errorString.
func (p *Path) errorsNew(msg string) Iface {
	fn := p.E.Prog.ImportedPackage("errors").Func("New")
	return p.callSSA(nil, fn, []Value{msg}, nil).(Iface)
}

func (p *Path) pkgType(pkg, name string) types.Type {
	pk := p.E.Prog.ImportedPackage(pkg)
	if pk == nil {
		p.unsupported("package %s not loaded", pkg)
	}
	return pk.Type(name).Type()
}

// verbs scans a format string and returns the verb of each consumed operand.
func verbs(format string) []byte {
	var out []byte
	for i := 0; i < len(format); i++ {
		if format[i] != '%' {
			continue
		}
		i++
		for i < len(format) && strings.IndexByte("+-# 0123456789.*", format[i]) >= 0 {
			if format[i] == '*' {
				out = append(out, '*')
			}
			i++
		}
		if i >= len(format) {
			break
		}
		if format[i] == '%' {
			continue
		}
		out = append(out, format[i])
	}
	return out
}

// formatValue renders one operand for the mini-Sprintf.
func (p *Path) formatValue(verb byte, a Value) Value {
	if i, ok := a.(Iface); ok {
		i = p.force(i)
		if i.T == nil {
			if verb == 'T' {
				return "<nil>"
			}
			return "<nil>"
		}
		if verb == 'T' {
			return types.TypeString(i.T, nil)
		}
		// Stringer / error
		if verb == 'v' || verb == 's' || verb == 'q' {
			for _, m := range []string{"Error", "String"} {
				if f := p.lookupMethodByName(i.T, m); f != nil && f.Signature.Params().Len() == 0 && f.Signature.Results().Len() == 1 && isString(f.Signature.Results().At(0).Type()) {
					if _, isAbs := i.V.(*AbsNum); isAbs {
						break
					}
					s := p.callFn(nil, f, []Value{i.V})
					if verb == 'q' {
						return p.quote(s)
					}
					return s
				}
			}
		}
		a = i.V
	}
	switch v := a.(type) {
	case string:
		switch verb {
		case 'q':
			return strconv.Quote(v)
		case 'x':
			return fmt.Sprintf("%x", v)
		}
		return v
	case *SymStr:
		if verb == 'q' {
			return p.quote(v)
		}
		return v
	case *AbsNum:
		return "⟨num⟩"
	case int64:
		switch verb {
		case 'c':
			return string(rune(v))
		case 'q':
			return strconv.QuoteRune(rune(v))
		case 'x':
			return strconv.FormatInt(v, 16)
		case 'U':
			return fmt.Sprintf("%U", v)
		}
		return strconv.FormatInt(v, 10)
	case uint64:
		switch verb {
		case 'c':
			return string(rune(v))
		case 'x':
			return strconv.FormatUint(v, 16)
		}
		return strconv.FormatUint(v, 10)
	case float64:
		return fmt.Sprintf("%"+string(verb), v)
	case bool:
		return strconv.FormatBool(v)
	case *smt.Term:
		// a scalar that depends on a few input bytes only: fork over its values
		if v.Sort.K == smt.KBV && v.Sort.W <= 64 {
			if vals := p.enumValues(v); vals != nil && len(vals) > 0 {
				conds := make([]*smt.Term, len(vals))
				for k, u := range vals {
					conds[k] = p.C.Eq(v, p.C.BV(u, v.Sort.W))
				}
				u := vals[p.chooseVerified(conds)]
				if verb == 'c' {
					return string(rune(u))
				}
				if verb == 'q' {
					return strconv.QuoteRune(rune(u))
				}
				// signedness is not known here: widths below 64 are printed unsigned
				if v.Sort.W == 64 {
					return strconv.FormatInt(int64(u), 10)
				}
				return strconv.FormatUint(u, 10)
			}
		}
		p.note("formatting of a symbolic scalar yields a placeholder")
		return "⟨sym⟩"
	case *Native:
		return fmt.Sprintf("%"+string(verb), v.V)
	case Slice:
		if verb == 's' || verb == 'q' {
			// []byte
			allBytes := true
			for _, e := range v.A {
				if _, ok := e.(uint64); !ok {
					allBytes = false
				}
			}
			if allBytes {
				return mkStr(v.A)
			}
		}
		return "[...]"
	}
	return fmt.Sprintf("⟨%T⟩", a)
}

func (p *Path) quote(s Value) Value {
	if cs, ok := s.(string); ok {
		return strconv.Quote(cs)
	}
	fn := p.E.Prog.ImportedPackage("strconv").Func("Quote")
	return p.callSSAbody(fn, []Value{s})
}

// callSSAbody interprets fn's body even if an external is registered for it.
func (p *Path) callSSAbody(fn *ssa.Function, args []Value) Value {
	saved, had := externals[fn.String()]
	_ = saved
	if had {
		// externals is shared between goroutines: never mutate; use a flag
		p.bypass[fn] = p.bypass[fn] + 1
		defer func() { p.bypass[fn] = p.bypass[fn] - 1 }()
	}
	return p.callSSA(nil, fn, args, nil)
}

func (p *Path) lookupMethodByName(t types.Type, name string) *ssa.Function {
	ms := p.E.Prog.MethodSets.MethodSet(t)
	for i := 0; i < ms.Len(); i++ {
		if ms.At(i).Obj().Name() == name {
			return p.E.Prog.MethodValue(ms.At(i))
		}
	}
	return nil
}

func (p *Path) sprintf(format Value, args []Value) Value {
	f, ok := format.(string)
	if !ok {
		p.unsupported("symbolic format string")
	}
	var parts []Value
	ai := 0
	lit := func(s string) {
		if s != "" {
			parts = append(parts, s)
		}
	}
	start := 0
	for i := 0; i < len(f); i++ {
		if f[i] != '%' {
			continue
		}
		lit(f[start:i])
		i++
		for i < len(f) && strings.IndexByte("+-# 0123456789.", f[i]) >= 0 {
			i++
		}
		if i >= len(f) {
			start = i
			break
		}
		if f[i] == '%' {
			lit("%")
		} else if ai < len(args) {
			verb := f[i]
			if verb == 'w' {
				verb = 'v'
			}
			parts = append(parts, p.formatValue(verb, args[ai]))
			ai++
		} else {
			lit("%!" + string(f[i]) + "(MISSING)")
		}
		start = i + 1
	}
	if start < len(f) {
		lit(f[start:])
	}
	var res Value = ""
	for _, pt := range parts {
		res = p.strConcat(res, pt)
	}
	return res
}

func sliceArgs(v Value) []Value {
	if s, ok := v.(Slice); ok {
		return s.A
	}
	return nil
}

func init() {
	externals["fmt.Errorf"] = func(p *Path, _ *frame, _ *ssa.Function, a []Value) (Value, bool) {
		format, _ := a[0].(string)
		args := sliceArgs(a[1])
		vs := verbs(format)
		var wrapped []Value
		for i, v := range vs {
			if v == 'w' && i < len(args) {
				if e, ok := args[i].(Iface); ok && e.T != nil {
					wrapped = append(wrapped, e)
				}
			}
		}
		var msg Value = format
		if p.E.FormatErrors || p.formatErrors {
			msg = p.sprintf(format, args)
		}
		switch len(wrapped) {
		case 0:
			m, _ := msg.(string)
			return p.errorsNew(m), true
		case 1:
			t := p.pkgType("fmt", "wrapError")
			cell := new(Value)
			*cell = Struct{msg, wrapped[0]}
			return Iface{T: types.NewPointer(t), V: cell}, true
		default:
			t := p.pkgType("fmt", "wrapErrors")
			cell := new(Value)
			*cell = Struct{msg, Slice{A: wrapped}}
			return Iface{T: types.NewPointer(t), V: cell}, true
		}
	}
	externals["fmt.Sprintf"] = func(p *Path, _ *frame, _ *ssa.Function, a []Value) (Value, bool) {
		return p.sprintf(a[0], sliceArgs(a[1])), true
	}
	externals["fmt.Sprint"] = func(p *Path, _ *frame, _ *ssa.Function, a []Value) (Value, bool) {
		var res Value = ""
		for _, x := range sliceArgs(a[0]) {
			res = p.strConcat(res, p.formatValue('v', x))
		}
		return res, true
	}
	externals["fmt.Fprintf"] = func(p *Path, _ *frame, _ *ssa.Function, a []Value) (Value, bool) {
		s := p.sprintf(a[1], sliceArgs(a[2]))
		w := a[0].(Iface)
		f := p.lookupMethodByName(w.T, "WriteString")
		if f == nil {
			p.unsupported("Fprintf to %v", w.T)
		}
		p.callFn(nil, f, []Value{w.V, s})
		return Tuple{int64(strLen(s)), Iface{}}, true
	}
	for _, n := range []string{"fmt.Println", "fmt.Printf", "fmt.Print", "log.Printf", "log.Println"} {
		externals[n] = func(p *Path, _ *frame, fn *ssa.Function, a []Value) (Value, bool) {
			if fn.Signature.Results().Len() == 0 {
				return nil, true
			}
			return Tuple{int64(0), Iface{}}, true
		}
	}
	externals["errors.Is"] = func(p *Path, _ *frame, _ *ssa.Function, a []Value) (Value, bool) {
		err, target := p.force(a[0].(Iface)), p.force(a[1].(Iface))
		if err.T == nil || target.T == nil {
			return err.T == nil && target.T == nil, true
		}
		is := p.E.Prog.ImportedPackage("errors").Func("is")
		return p.callSSA(nil, is, []Value{err, target, types.Comparable(target.T)}, nil), true
	}
	externals["context.WithValue"] = func(p *Path, _ *frame, _ *ssa.Function, a []Value) (Value, bool) {
		parent := a[0].(Iface)
		if parent.T == nil {
			panic(&goPanic{v: Iface{T: p.E.tString, V: "cannot create context from nil parent"}, msg: "cannot create context from nil parent"})
		}
		t := p.pkgType("context", "valueCtx")
		cell := new(Value)
		*cell = Struct{parent, a[1], a[2]}
		return Iface{T: types.NewPointer(t), V: cell}, true
	}

	// ---- strings.Builder ----
	bufOf := func(p *Path, recv Value) *Value {
		ptr := recv.(*Value)
		if ptr == nil {
			p.runtimePanic("nil *strings.Builder")
		}
		return &(*ptr).(Struct)[1]
	}
	appendBytes := func(p *Path, recv Value, bs []Value) {
		b := bufOf(p, recv)
		cur := (*b).(Slice)
		na := make([]Value, 0, len(cur.A)+len(bs))
		na = append(na, cur.A...)
		na = append(na, bs...)
		*b = Slice{A: na}
	}
	// sync.Pool: an environment model. Put keeps the item in per-path state;
	// Get hands back the most recent pooled item or behaves as if the pool
	// had dropped it (both are allowed by the documented contract): a forked
	// choice, so code that relies on what a reused item still holds is
	// explored on both branches.
	externals["(*sync.Pool).Put"] = func(p *Path, _ *frame, _ *ssa.Function, a []Value) (Value, bool) {
		key, _ := a[0].(*Value)
		if key == nil {
			p.runtimePanic("nil *sync.Pool")
		}
		if it, ok := a[1].(Iface); ok && it.T == nil && it.L == nil {
			return nil, true
		}
		if p.pools == nil {
			p.pools = map[*Value][]Value{}
		}
		p.pools[key] = append(p.pools[key], a[1])
		return nil, true
	}
	externals["(*sync.Pool).Get"] = func(p *Path, fr *frame, _ *ssa.Function, a []Value) (Value, bool) {
		key, _ := a[0].(*Value)
		if key == nil {
			p.runtimePanic("nil *sync.Pool")
		}
		if items := p.pools[key]; len(items) > 0 {
			b := p.newVar("pool_reuse", smt.BoolSort)
			if p.choose([]*smt.Term{b, p.C.Not(b)}) == 0 {
				p.pools[key] = items[:len(items)-1]
				p.note("stub: sync.Pool.Get returns a pooled item or a fresh one (forked)")
				return items[len(items)-1], true
			}
		}
		st := (*key).(Struct)
		newf := st[len(st)-1]
		switch f := newf.(type) {
		case *Closure:
			if f != nil {
				return p.callFn(fr, f, nil), true
			}
		case *ssa.Function:
			if f != nil {
				return p.callFn(fr, f, nil), true
			}
		}
		return Iface{}, true
	}
	// sync.Map: an association list in per-path state (keys compared as
	// interface values; a symbolic comparison forks).
	smFind := func(p *Path, key *Value, k Value) int {
		ki, _ := k.(Iface)
		for i, e := range p.syncMaps[key] {
			eq := p.equals(nil, e[0], ki)
			if b, ok := eq.(bool); ok {
				if b {
					return i
				}
				continue
			}
			if p.branch(p.term(eq, types.Typ[types.Bool])) {
				return i
			}
		}
		return -1
	}
	smKey := func(p *Path, a Value) *Value {
		key, _ := a.(*Value)
		if key == nil {
			p.runtimePanic("nil *sync.Map")
		}
		if p.syncMaps == nil {
			p.syncMaps = map[*Value][][2]Value{}
		}
		return key
	}
	externals["(*sync.Map).Load"] = func(p *Path, _ *frame, _ *ssa.Function, a []Value) (Value, bool) {
		key := smKey(p, a[0])
		if i := smFind(p, key, a[1]); i >= 0 {
			return Tuple{p.syncMaps[key][i][1], true}, true
		}
		return Tuple{Iface{}, false}, true
	}
	externals["(*sync.Map).Store"] = func(p *Path, _ *frame, _ *ssa.Function, a []Value) (Value, bool) {
		key := smKey(p, a[0])
		if i := smFind(p, key, a[1]); i >= 0 {
			p.syncMaps[key][i][1] = a[2]
		} else {
			p.syncMaps[key] = append(p.syncMaps[key], [2]Value{a[1], a[2]})
		}
		return nil, true
	}
	externals["(*sync.Map).LoadOrStore"] = func(p *Path, _ *frame, _ *ssa.Function, a []Value) (Value, bool) {
		key := smKey(p, a[0])
		if i := smFind(p, key, a[1]); i >= 0 {
			return Tuple{p.syncMaps[key][i][1], true}, true
		}
		p.syncMaps[key] = append(p.syncMaps[key], [2]Value{a[1], a[2]})
		return Tuple{a[2], false}, true
	}
	externals["(*sync.Map).Delete"] = func(p *Path, _ *frame, _ *ssa.Function, a []Value) (Value, bool) {
		key := smKey(p, a[0])
		if i := smFind(p, key, a[1]); i >= 0 {
			l := p.syncMaps[key]
			p.syncMaps[key] = append(append([][2]Value{}, l[:i]...), l[i+1:]...)
		}
		return nil, true
	}
	// sync.Mutex / RWMutex: exploration is single-threaded, locking is a no-op.
	for _, n := range []string{"(*sync.Mutex).Lock", "(*sync.Mutex).Unlock", "(*sync.RWMutex).Lock", "(*sync.RWMutex).Unlock", "(*sync.RWMutex).RLock", "(*sync.RWMutex).RUnlock"} {
		externals[n] = func(p *Path, _ *frame, _ *ssa.Function, a []Value) (Value, bool) { return nil, true }
	}
	// sync/atomic.Value: one cell per object in per-path state (kept in the
	// sync.Map store under a reserved key).
	externals["(*sync/atomic.Value).Load"] = func(p *Path, _ *frame, _ *ssa.Function, a []Value) (Value, bool) {
		key := smKey(p, a[0])
		if l := p.syncMaps[key]; len(l) > 0 {
			return l[0][1], true
		}
		return Iface{}, true
	}
	externals["(*sync/atomic.Value).Store"] = func(p *Path, _ *frame, _ *ssa.Function, a []Value) (Value, bool) {
		key := smKey(p, a[0])
		p.syncMaps[key] = [][2]Value{{Iface{}, a[1]}}
		return nil, true
	}
	externals["(*strings.Builder).WriteString"] = func(p *Path, _ *frame, _ *ssa.Function, a []Value) (Value, bool) {
		if _, ok := a[1].(*AbsNum); ok {
			p.unsupported("WriteString(abstract number text)")
		}
		appendBytes(p, a[0], strBytes(a[1]))
		return Tuple{int64(strLen(a[1])), Iface{}}, true
	}
	externals["(*strings.Builder).Write"] = func(p *Path, _ *frame, _ *ssa.Function, a []Value) (Value, bool) {
		s := a[1].(Slice)
		appendBytes(p, a[0], s.A)
		return Tuple{int64(len(s.A)), Iface{}}, true
	}
	externals["(*strings.Builder).WriteByte"] = func(p *Path, _ *frame, _ *ssa.Function, a []Value) (Value, bool) {
		appendBytes(p, a[0], []Value{a[1]})
		return Iface{}, true
	}
	externals["(*strings.Builder).WriteRune"] = func(p *Path, _ *frame, _ *ssa.Function, a []Value) (Value, bool) {
		bs := p.encodeRune(a[1])
		appendBytes(p, a[0], bs)
		return Tuple{int64(len(bs)), Iface{}}, true
	}
	externals["(*strings.Builder).String"] = func(p *Path, _ *frame, _ *ssa.Function, a []Value) (Value, bool) {
		b := bufOf(p, a[0])
		return mkStr((*b).(Slice).A), true
	}
	externals["(*strings.Builder).Len"] = func(p *Path, _ *frame, _ *ssa.Function, a []Value) (Value, bool) {
		b := bufOf(p, a[0])
		return int64(len((*b).(Slice).A)), true
	}
	externals["(*strings.Builder).Reset"] = func(p *Path, _ *frame, _ *ssa.Function, a []Value) (Value, bool) {
		b := bufOf(p, a[0])
		*b = Slice{}
		return nil, true
	}
	externals["(*strings.Builder).Grow"] = func(p *Path, _ *frame, _ *ssa.Function, a []Value) (Value, bool) {
		return nil, true
	}

	// ---- strings ----
	externals["strings.Compare"] = func(p *Path, _ *frame, _ *ssa.Function, a []Value) (Value, bool) {
		if x, ok := a[0].(string); ok {
			if y, ok := a[1].(string); ok {
				return int64(strings.Compare(x, y)), true
			}
		}
		lt := p.term(p.strLess(a[0], a[1], false), types.Typ[types.Bool])
		eq := p.term(p.strEq(a[0], a[1]), types.Typ[types.Bool])
		r := p.C.Ite(lt, p.C.BVS(-1, 64), p.C.Ite(eq, p.C.BVS(0, 64), p.C.BVS(1, 64)))
		return fromTerm(r, types.Typ[types.Int]), true
	}
	concreteStr := func(name string, f any) {
		rf := reflect.ValueOf(f)
		externals[name] = func(p *Path, _ *frame, fn *ssa.Function, a []Value) (Value, bool) {
			if !allConcrete(a) {
				return nil, false
			}
			return p.nativeInvoke(rf, fn, a), true
		}
	}
	concreteStr("strings.HasPrefix", strings.HasPrefix)
	concreteStr("strings.HasSuffix", strings.HasSuffix)
	concreteStr("strings.EqualFold", strings.EqualFold)
	concreteStr("strings.ToLower", strings.ToLower)
	concreteStr("strings.ToUpper", strings.ToUpper)
	concreteStr("strings.Contains", strings.Contains)
	concreteStr("strings.Index", strings.Index)
	concreteStr("strings.IndexByte", strings.IndexByte)
	concreteStr("strings.LastIndex", strings.LastIndex)
	concreteStr("strings.TrimSpace", strings.TrimSpace)
	concreteStr("strings.Repeat", strings.Repeat)
	concreteStr("strings.Join", strings.Join)
	concreteStr("strconv.ParseInt", strconv.ParseInt)
	concreteStr("strconv.ParseUint", strconv.ParseUint)
	concreteStr("strconv.Atoi", strconv.Atoi)
	concreteStr("strconv.Itoa", strconv.Itoa)
	externals["strconv.FormatInt"] = func(p *Path, _ *frame, fn *ssa.Function, a []Value) (Value, bool) {
		if allConcrete(a) {
			return p.nativeInvoke(reflect.ValueOf(strconv.FormatInt), fn, a), true
		}
		vt, ok := a[0].(*smt.Term)
		base, bok := a[1].(int64)
		if ok && bok {
			// a value that depends on a few input bytes only: fork over it
			if vals := p.enumValues(vt); vals != nil && len(vals) > 0 {
				conds := make([]*smt.Term, len(vals))
				for k, u := range vals {
					conds[k] = p.C.Eq(vt, p.C.BV(u, 64))
				}
				v := int64(vals[p.chooseVerified(conds)])
				return strconv.FormatInt(v, int(base)), true
			}
			if p.smallInts {
				// stated bound: |v| < 10^4, digits computed by the real code
				return nil, false
			}
		}
		p.note("stub: strconv.FormatInt(symbolic) is an opaque text")
		return "⟨int⟩", true
	}
	concreteStr("strconv.FormatUint", strconv.FormatUint)
	concreteStr("strconv.Quote", strconv.Quote)
	concreteStr("strconv.QuoteRune", strconv.QuoteRune)
	concreteStr("strconv.Unquote", strconv.Unquote)
	concreteStr("strconv.FormatBool", strconv.FormatBool)
	concreteStr("unicode/utf8.DecodeRune", utf8.DecodeRune)
	concreteStr("unicode/utf8.DecodeRuneInString", utf8.DecodeRuneInString)
	concreteStr("unicode/utf8.EncodeRune", nil)
	delete(externals, "unicode/utf8.EncodeRune")
	concreteStr("unicode/utf8.RuneLen", utf8.RuneLen)
	concreteStr("unicode/utf8.ValidString", utf8.ValidString)
	concreteStr("unicode/utf8.RuneCountInString", utf8.RuneCountInString)
	concreteStr("regexp.QuoteMeta", regexp.QuoteMeta)
	concreteStr("math.Pow10", math.Pow10)
	concreteStr("math.Pow", math.Pow)

	// strconv.ParseFloat / FormatFloat: concrete pass-through, else stub
	externals["strconv.ParseFloat"] = func(p *Path, _ *frame, fn *ssa.Function, a []Value) (Value, bool) {
		if allConcrete(a) {
			return p.nativeInvoke(reflect.ValueOf(strconv.ParseFloat), fn, a), true
		}
		if cs, ok := p.concretizeString(a[0]); ok {
			// the symbolic bytes range over a small domain: fork over it
			return p.nativeInvoke(reflect.ValueOf(strconv.ParseFloat), fn, []Value{cs, a[1]}), true
		}
		if strLen(a[0]) <= 6 {
			// short symbolic text: interpret the real strconv.ParseFloat
			return nil, false
		}
		// nondeterministic: finite value / range error / syntax error
		switch p.choose(make([]*smt.Term, 3)) {
		case 0:
			f := p.newVar("pf", smt.FPSort)
			p.assume(p.C.Not(p.C.Or(p.C.FpIsNaN(f), p.C.FpIsInf(f))))
			p.note("stub: strconv.ParseFloat(symbolic) = arbitrary finite value")
			return Tuple{f, Iface{}}, true
		case 1:
			sign := p.newVar("pfs", smt.BoolSort)
			inf := p.C.Ite(sign, p.C.FP(math.Inf(-1)), p.C.FP(math.Inf(1)))
			return Tuple{inf, p.nativeError(&strconv.NumError{Func: "ParseFloat", Num: "?", Err: strconv.ErrRange})}, true
		}
		return Tuple{float64(0), p.nativeError(&strconv.NumError{Func: "ParseFloat", Num: "?", Err: strconv.ErrSyntax})}, true
	}
	externals["strconv.FormatFloat"] = func(p *Path, _ *frame, fn *ssa.Function, a []Value) (Value, bool) {
		if allConcrete(a) {
			return p.nativeInvoke(reflect.ValueOf(strconv.FormatFloat), fn, a), true
		}
		if ft, ok := a[0].(*smt.Term); ok && allConcrete(a[1:]) {
			// a value that depends on a few input bytes only: fork over it
			if vals := p.enumValues(ft); vals != nil && len(vals) > 0 {
				conds := make([]*smt.Term, len(vals))
				for k, u := range vals {
					conds[k] = p.C.Eq(ft, p.C.FP(math.Float64frombits(u)))
				}
				f := math.Float64frombits(vals[p.chooseVerified(conds)])
				return p.nativeInvoke(reflect.ValueOf(strconv.FormatFloat), fn, []Value{f, a[1], a[2], a[3]}), true
			}
		}
		return p.formatFloatSym(a[0].(*smt.Term)), true
	}
	externals["encoding/json.Marshal"] = func(p *Path, _ *frame, fn *ssa.Function, a []Value) (Value, bool) {
		i := p.force(a[0].(Iface))
		if f, ok := i.V.(float64); ok {
			b, err := json.Marshal(f)
			if err != nil {
				return Tuple{Slice{}, p.errorsNew(err.Error())}, true
			}
			return Tuple{p.bytesToSlice(b), Iface{}}, true
		}
		if i.T != nil {
			if f := p.lookupMethodByName(i.T, "MarshalJSON"); f != nil {
				// a json.Marshaler: its output is taken as is (validity of the
				// produced JSON is not re-checked)
				return p.callFn(nil, f, []Value{i.V}), true
			}
		}
		if ft, ok := i.V.(*smt.Term); ok && ft.Sort.K == smt.KFP {
			// a float that depends on a few input bytes only (digits of a
			// literal): fork over its feasible values and format natively
			if vals := p.enumValues(ft); vals != nil && len(vals) > 0 {
				conds := make([]*smt.Term, len(vals))
				for k, u := range vals {
					conds[k] = p.C.Eq(ft, p.C.FP(math.Float64frombits(u)))
				}
				f := math.Float64frombits(vals[p.chooseVerified(conds)])
				b, err := json.Marshal(f)
				if err != nil {
					return Tuple{Slice{}, p.errorsNew(err.Error())}, true
				}
				return Tuple{p.bytesToSlice(b), Iface{}}, true
			}
		}
		p.unsupported("json.Marshal(%s)", describe(i))
		return nil, true
	}

	// ---- json.Number ----
	externals["(encoding/json.Number).Int64"] = func(p *Path, _ *frame, _ *ssa.Function, a []Value) (Value, bool) {
		an, ok := a[0].(*AbsNum)
		if !ok {
			return nil, false
		}
		if an.Mode == 0 {
			return Tuple{an.I, Iface{}}, true
		}
		return Tuple{int64(0), p.nativeError(&strconv.NumError{Func: "ParseInt", Num: "1e400", Err: strconv.ErrSyntax})}, true
	}
	externals["(encoding/json.Number).Float64"] = func(p *Path, _ *frame, _ *ssa.Function, a []Value) (Value, bool) {
		an, ok := a[0].(*AbsNum)
		if !ok {
			return nil, false
		}
		if an.Mode <= 1 {
			return Tuple{an.F, Iface{}}, true
		}
		return Tuple{math.Inf(1), p.nativeError(&strconv.NumError{Func: "ParseFloat", Num: "1e400", Err: strconv.ErrRange})}, true
	}
	externals["(encoding/json.Number).String"] = func(p *Path, _ *frame, _ *ssa.Function, a []Value) (Value, bool) {
		return a[0], true
	}

	// ---- math ----
	fp1 := func(name string, conc func(float64) float64, sym func(p *Path, t *smt.Term) *smt.Term) {
		externals[name] = func(p *Path, _ *frame, _ *ssa.Function, a []Value) (Value, bool) {
			switch x := a[0].(type) {
			case float64:
				return conc(x), true
			case *smt.Term:
				return fromTerm(sym(p, x), types.Typ[types.Float64]), true
			}
			return nil, false
		}
	}
	fp1("math.Abs", math.Abs, func(p *Path, t *smt.Term) *smt.Term { return p.C.FpAbs(t) })
	fp1("math.Floor", math.Floor, func(p *Path, t *smt.Term) *smt.Term { return p.C.FpRound(t, smt.RMTowardNeg) })
	fp1("math.Ceil", math.Ceil, func(p *Path, t *smt.Term) *smt.Term { return p.C.FpRound(t, smt.RMTowardPos) })
	fp1("math.Trunc", math.Trunc, func(p *Path, t *smt.Term) *smt.Term { return p.C.FpRound(t, smt.RMTowardZero) })
	fp1("math.Round", math.Round, func(p *Path, t *smt.Term) *smt.Term { return p.C.FpRound(t, smt.RMNearestAway) })
	fp1("math.RoundToEven", math.RoundToEven, func(p *Path, t *smt.Term) *smt.Term { return p.C.FpRound(t, smt.RMNearestEven) })
	externals["math.IsNaN"] = func(p *Path, _ *frame, _ *ssa.Function, a []Value) (Value, bool) {
		switch x := a[0].(type) {
		case float64:
			return math.IsNaN(x), true
		case *smt.Term:
			return fromTerm(p.C.FpIsNaN(x), types.Typ[types.Bool]), true
		}
		return nil, false
	}
	externals["math.IsInf"] = func(p *Path, _ *frame, _ *ssa.Function, a []Value) (Value, bool) {
		sign := a[1].(int64)
		switch x := a[0].(type) {
		case float64:
			return math.IsInf(x, int(sign)), true
		case *smt.Term:
			r := p.C.FpIsInf(x)
			if sign > 0 {
				r = p.C.And(r, p.C.FpLt(p.C.FP(0), x))
			} else if sign < 0 {
				r = p.C.And(r, p.C.FpLt(x, p.C.FP(0)))
			}
			return fromTerm(r, types.Typ[types.Bool]), true
		}
		return nil, false
	}
	externals["math.Inf"] = func(p *Path, _ *frame, _ *ssa.Function, a []Value) (Value, bool) {
		return math.Inf(int(a[0].(int64))), true
	}
	externals["math.NaN"] = func(p *Path, _ *frame, _ *ssa.Function, a []Value) (Value, bool) {
		return math.NaN(), true
	}
	externals["math.Mod"] = func(p *Path, _ *frame, _ *ssa.Function, a []Value) (Value, bool) {
		x, xc := a[0].(float64)
		y, yc := a[1].(float64)
		if xc && yc {
			return math.Mod(x, y), true
		}
		// contract stub
		xt, yt := p.term(a[0], types.Typ[types.Float64]), p.term(a[1], types.Typ[types.Float64])
		C := p.C
		r := C.Apply("fmod", smt.FPSort, xt, yt)
		special := C.Or(C.Or(C.FpIsNaN(xt), C.FpIsNaN(yt)), C.Or(C.FpIsInf(xt), C.FpEq(yt, C.FP(0))))
		yInf := C.FpIsInf(yt)
		zero := C.FP(0)
		normal := C.And(C.Not(C.Or(C.FpIsNaN(r), C.FpIsInf(r))),
			C.And(C.FpLt(C.FpAbs(r), C.FpAbs(yt)),
				C.Or(C.FpEq(r, zero), C.Iff(C.FpLt(r, zero), C.FpLt(xt, zero)))))
		p.assume(C.Ite(special, C.FpIsNaN(r), C.Ite(yInf, C.Eq(r, xt), normal)))
		p.note("stub: math.Mod(symbolic) constrained by its documented contract only")
		return r, true
	}
	externals["math.Float64bits"] = func(p *Path, _ *frame, _ *ssa.Function, a []Value) (Value, bool) {
		switch x := a[0].(type) {
		case float64:
			return math.Float64bits(x), true
		case *smt.Term:
			b := p.newVar("fb", smt.BVSort(64))
			p.assume(p.C.Eq(p.C.FpFromBits(b), x))
			return b, true
		}
		return nil, false
	}
	externals["math.Float64frombits"] = func(p *Path, _ *frame, _ *ssa.Function, a []Value) (Value, bool) {
		switch x := a[0].(type) {
		case uint64:
			return math.Float64frombits(x), true
		case *smt.Term:
			return p.C.FpFromBits(x), true
		}
		return nil, false
	}
	externals["math/bits.Mul64"] = func(p *Path, _ *frame, _ *ssa.Function, a []Value) (Value, bool) {
		if !allConcrete(a) {
			x, y := p.term(a[0], types.Typ[types.Uint64]), p.term(a[1], types.Typ[types.Uint64])
			w := p.C.BvMul(p.C.Zext(x, 128), p.C.Zext(y, 128))
			return Tuple{fromTerm(p.C.Extract(w, 127, 64), types.Typ[types.Uint64]), fromTerm(p.C.Extract(w, 63, 0), types.Typ[types.Uint64])}, true
		}
		return nil, false
	}

	// internal/bytealg: byte-loop models (the real ones are assembly)
	indexByte := func(p *Path, bs []Value, c Value) Value {
		for i, b := range bs {
			eq := p.equals(types.Typ[types.Uint8], b, c)
			if p.branch(eq) {
				return int64(i)
			}
		}
		return int64(-1)
	}
	externals["internal/bytealg.IndexByteString"] = func(p *Path, _ *frame, _ *ssa.Function, a []Value) (Value, bool) {
		if s, ok := a[0].(string); ok {
			if c, ok := a[1].(uint64); ok {
				return int64(strings.IndexByte(s, byte(c))), true
			}
		}
		return indexByte(p, strBytes(a[0]), a[1]), true
	}
	externals["internal/bytealg.IndexByte"] = func(p *Path, _ *frame, _ *ssa.Function, a []Value) (Value, bool) {
		return indexByte(p, a[0].(Slice).A, a[1]), true
	}
	externals["internal/bytealg.IndexString"] = func(p *Path, _ *frame, _ *ssa.Function, a []Value) (Value, bool) {
		if s, ok := a[0].(string); ok {
			if sub, ok := a[1].(string); ok {
				return int64(strings.Index(s, sub)), true
			}
		}
		hs, nd := strBytes(a[0]), strBytes(a[1])
		for i := 0; i+len(nd) <= len(hs); i++ {
			var acc Value = true
			for j := range nd {
				acc = p.and(acc, p.equals(types.Typ[types.Uint8], hs[i+j], nd[j]))
			}
			if p.branch(acc) {
				return int64(i), true
			}
		}
		return int64(-1), true
	}
	externals["internal/bytealg.CountString"] = func(p *Path, _ *frame, _ *ssa.Function, a []Value) (Value, bool) {
		n := int64(0)
		for _, b := range strBytes(a[0]) {
			if p.branch(p.equals(types.Typ[types.Uint8], b, a[1])) {
				n++
			}
		}
		return n, true
	}
	externals["internal/bytealg.MakeNoZero"] = func(p *Path, _ *frame, _ *ssa.Function, a []Value) (Value, bool) {
		n := int(a[0].(int64))
		bs := make([]Value, n)
		for i := range bs {
			bs[i] = uint64(0)
		}
		return Slice{A: bs}, true
	}
	ident := func(p *Path, _ *frame, _ *ssa.Function, a []Value) (Value, bool) { return a[0], true }
	externals["internal/stringslite.Clone"] = ident
	externals["strings.Clone"] = ident
	externals["internal/abi.NoEscape"] = ident

	// ---- reflect (keyvalue ids) ----
	externals["reflect.ValueOf"] = func(p *Path, _ *frame, _ *ssa.Function, a []Value) (Value, bool) {
		return &Native{V: reflectBox{p.force(a[0].(Iface))}}, true
	}
	externals["(reflect.Value).Pointer"] = func(p *Path, _ *frame, _ *ssa.Function, a []Value) (Value, bool) {
		rb, ok := a[0].(*Native).V.(reflectBox)
		if !ok {
			p.unsupported("reflect.Value.Pointer on %T", a[0].(*Native).V)
		}
		return p.symAddr(rb.v.V), true
	}

	// ---- xid ----
	xidFn := func(name string, f func(rune) bool, ascii func(C *smt.Ctx, r *smt.Term) *smt.Term) {
		externals[name] = func(p *Path, _ *frame, _ *ssa.Function, a []Value) (Value, bool) {
			switch r := a[0].(type) {
			case int64:
				return f(rune(r)), true
			case *smt.Term:
				C := p.C
				isASCII := C.BvUlt(r, C.BV(0x80, 32))
				u := C.Apply("xid_"+strings.ReplaceAll(name[strings.LastIndex(name, ".")+1:], ".", "_"), smt.BoolSort, r)
				return fromTerm(C.Ite(isASCII, ascii(C, r), u), types.Typ[types.Bool]), true
			}
			return nil, false
		}
	}
	letter := func(C *smt.Ctx, r *smt.Term) *smt.Term {
		l := C.BvOr(r, C.BV(0x20, 32))
		return C.And(C.BvUle(C.BV('a', 32), l), C.BvUle(l, C.BV('z', 32)))
	}
	xidFn("github.com/smasher164/xid.Start", xidStart, letter)
	xidFn("github.com/smasher164/xid.Continue", xidContinue, func(C *smt.Ctx, r *smt.Term) *smt.Term {
		digit := C.And(C.BvUle(C.BV('0', 32), r), C.BvUle(r, C.BV('9', 32)))
		return C.Or(C.Or(letter(C, r), digit), C.Eq(r, C.BV('_', 32)))
	})

	// ---- package init filtering is done in worker.go ----
}

func init() {
	b := func(x bool) uint64 {
		if x {
			return 1
		}
		return 0
	}
	smt.FuncImpl["xid_Start"] = func(a []uint64) uint64 { return b(xidStart(rune(int32(uint32(a[0]))))) }
	smt.FuncImpl["xid_Continue"] = func(a []uint64) uint64 { return b(xidContinue(rune(int32(uint32(a[0]))))) }
}

type reflectBox struct{ v Iface }

// xidStart / xidContinue follow github.com/smasher164/xid without the NFKC
// closure step (exact on ASCII; the engine module cannot import xid offline).
func xidStart(r rune) bool {
	return (unicode.IsLetter(r) || unicode.Is(unicode.Nl, r) || unicode.Is(unicode.Other_ID_Start, r)) &&
		!unicode.Is(unicode.Pattern_Syntax, r) && !unicode.Is(unicode.Pattern_White_Space, r)
}

func xidContinue(r rune) bool {
	return (xidStart(r) || unicode.Is(unicode.Mn, r) || unicode.Is(unicode.Mc, r) || unicode.Is(unicode.Nd, r) ||
		unicode.Is(unicode.Pc, r) || unicode.Is(unicode.Other_ID_Continue, r)) &&
		!unicode.Is(unicode.Pattern_Syntax, r) && !unicode.Is(unicode.Pattern_White_Space, r)
}

// symAddr returns a stable pseudo-address for a heap object: concrete and
// distinct per object, in allocation order (addresses grow by 4096).
func (p *Path) symAddr(v Value) Value {
	var key any
	switch v := v.(type) {
	case Slice:
		if len(v.A) == 0 {
			return uint64(0xC000000000)
		}
		key = &v.A[0]
	case *Map:
		key = v
	case *Value:
		key = v
	default:
		return uint64(0)
	}
	if p.addrOf == nil {
		p.addrOf = map[any]*smt.Term{}
	}
	if t, ok := p.addrOf[key]; ok {
		return fromTerm(t, types.Typ[types.Uintptr])
	}
	// symbolic address: non-zero, 8-aligned, within a 47-bit user space, and
	// pairwise distinct from all other objects
	t := p.newVar("addr", smt.BVSort(64))
	C := p.C
	p.assume(C.And(C.BvUlt(C.BV(0x1000, 64), t), C.BvUlt(t, C.BV(1<<47, 64))))
	p.assume(C.Eq(C.BvAnd(t, C.BV(7, 64)), C.BV(0, 64)))
	// allocator model: objects are asked for their address in allocation
	// order and addresses grow (at least one word apart); stated in DESIGN
	if n := len(p.objAddr); n > 0 {
		p.assume(C.BvUlt(C.BvAdd(p.objAddr[n-1], C.BV(7, 64)), t))
	}
	p.objAddr = append(p.objAddr, t)
	p.addrOf[key] = t
	return t
}

func (p *Path) bytesToSlice(b []byte) Slice {
	a := make([]Value, len(b))
	for i, c := range b {
		a[i] = uint64(c)
	}
	return Slice{A: a}
}

// concretizeString forks over the feasible values of the symbolic bytes of s
// when each of them ranges over a small domain (found by evaluation).
func (p *Path) concretizeString(s Value) (string, bool) {
	ss, ok := s.(*SymStr)
	if !ok {
		cs, ok := s.(string)
		return cs, ok
	}
	out := make([]byte, len(ss.B))
	for i, b := range ss.B {
		switch b := b.(type) {
		case uint64:
			out[i] = byte(b)
		case *smt.Term:
			t := p.simplify(b)
			if u, ok := t.BVVal(); ok {
				out[i] = byte(u)
				continue
			}
			vals := p.enumValues(t)
			if vals == nil || len(vals) == 0 || len(vals) > 64 {
				return "", false
			}
			conds := make([]*smt.Term, len(vals))
			for k, u := range vals {
				conds[k] = p.C.Eq(t, p.C.BV(u, 8))
			}
			out[i] = byte(vals[p.chooseVerified(conds)])
		default:
			return "", false
		}
	}
	return string(out), true
}

// encodeRune is utf8.AppendRune for a possibly symbolic rune.
func (p *Path) encodeRune(r Value) []Value {
	switch r := r.(type) {
	case int64:
		var buf [4]byte
		n := utf8.EncodeRune(buf[:], rune(r))
		out := make([]Value, n)
		for i := 0; i < n; i++ {
			out[i] = uint64(buf[i])
		}
		return out
	case *smt.Term:
		C := p.C
		c := func(v uint64) *smt.Term { return C.BV(v, 32) }
		sur := C.And(C.BvUle(c(0xD800), r), C.BvUle(r, c(0xDFFF)))
		bad := C.Or(C.Or(C.BvSlt(r, c(0)), C.BvSlt(c(0x10FFFF), r)), sur)
		conds := []*smt.Term{
			C.And(C.BvSle(c(0), r), C.BvSlt(r, c(0x80))),
			C.And(C.BvSle(c(0x80), r), C.BvSlt(r, c(0x800))),
			C.And(C.And(C.BvSle(c(0x800), r), C.BvSlt(r, c(0x10000))), C.Not(sur)),
			C.And(C.BvSle(c(0x10000), r), C.BvSle(r, c(0x10FFFF))),
			bad,
		}
		b8 := func(t *smt.Term) Value { return fromTerm(C.Extract(t, 7, 0), types.Typ[types.Uint8]) }
		shr := func(t *smt.Term, n uint64) *smt.Term { return C.BvLshr(t, c(n)) }
		cont := func(t *smt.Term) Value { return b8(C.BvOr(c(0x80), C.BvAnd(t, c(0x3F)))) }
		switch p.choose(conds) {
		case 0:
			return []Value{b8(r)}
		case 1:
			return []Value{b8(C.BvOr(c(0xC0), shr(r, 6))), cont(r)}
		case 2:
			return []Value{b8(C.BvOr(c(0xE0), shr(r, 12))), cont(shr(r, 6)), cont(r)}
		case 3:
			return []Value{b8(C.BvOr(c(0xF0), shr(r, 18))), cont(shr(r, 12)), cont(shr(r, 6)), cont(r)}
		}
		return []Value{uint64(0xEF), uint64(0xBF), uint64(0xBD)}
	}
	panic(fmt.Sprintf("encodeRune %T", r))
}

// formatFloatSym models strconv.FormatFloat(x,'f',-1,64) for symbolic x:
// exact for integral |x| < 1000 (the digits are computed), opaque otherwise.
func (p *Path) formatFloatSym(x *smt.Term) Value {
	C := p.C
	if !p.exactSmallFloats {
		p.note("stub: strconv.FormatFloat(symbolic) is an opaque text")
		return "⟨float⟩"
	}
	abs := C.FpAbs(x)
	integral := C.And(C.FpEq(C.FpRound(x, smt.RMTowardZero), x), C.FpLt(abs, C.FP(1000)))
	if p.choose([]*smt.Term{integral, C.Not(integral)}) == 1 {
		p.note("stub: strconv.FormatFloat(symbolic) is opaque unless the value is integral with |x| < 1000")
		return "⟨float⟩"
	}
	n := C.FpToSBV(abs, 64) // 0..999
	neg := C.FpLt(x, C.FP(0))
	v := p.concretizeRange(n, 0, 999)
	s := strconv.FormatInt(v, 10)
	if p.branch(fromTerm(neg, types.Typ[types.Bool])) {
		s = "-" + s
	}
	return s
}

// ---- native pass-through ----

var errorRType = reflect.TypeOf((*error)(nil)).Elem()

func (p *Path) toGo(v Value, t reflect.Type) reflect.Value {
	switch t.Kind() {
	case reflect.Bool:
		return reflect.ValueOf(v.(bool)).Convert(t)
	case reflect.Int, reflect.Int8, reflect.Int16, reflect.Int32, reflect.Int64:
		return reflect.ValueOf(v.(int64)).Convert(t)
	case reflect.Uint, reflect.Uint8, reflect.Uint16, reflect.Uint32, reflect.Uint64, reflect.Uintptr:
		return reflect.ValueOf(v.(uint64)).Convert(t)
	case reflect.Float64, reflect.Float32:
		return reflect.ValueOf(v.(float64)).Convert(t)
	case reflect.String:
		return reflect.ValueOf(v.(string)).Convert(t)
	case reflect.Slice:
		s := v.(Slice)
		out := reflect.MakeSlice(t, len(s.A), len(s.A))
		for i, e := range s.A {
			out.Index(i).Set(p.toGo(e, t.Elem()))
		}
		if s.A == nil {
			return reflect.Zero(t)
		}
		return out
	case reflect.Struct, reflect.Ptr:
		switch n := v.(type) {
		case *Native:
			rv := reflect.ValueOf(n.V)
			if rv.IsValid() && rv.Type().AssignableTo(t) {
				return rv
			}
		case *Value:
			if n == nil {
				return reflect.Zero(t)
			}
		}
	case reflect.Interface:
		if i, ok := v.(Iface); ok {
			i = p.force(i)
			if i.T == nil {
				return reflect.Zero(t)
			}
			if n, ok := i.V.(*Native); ok {
				return reflect.ValueOf(n.V)
			}
		}
	}
	p.unsupported("native pass-through: cannot convert %s to %v", describe(v), t)
	return reflect.Value{}
}

func (p *Path) fromGo(rv reflect.Value, st types.Type) Value {
	t := rv.Type()
	switch t.Kind() {
	case reflect.Bool:
		return rv.Bool()
	case reflect.Int, reflect.Int8, reflect.Int16, reflect.Int32, reflect.Int64:
		return rv.Int()
	case reflect.Uint, reflect.Uint8, reflect.Uint16, reflect.Uint32, reflect.Uint64, reflect.Uintptr:
		return rv.Uint()
	case reflect.Float64, reflect.Float32:
		return rv.Float()
	case reflect.String:
		return rv.String()
	case reflect.Slice:
		if rv.IsNil() {
			return Slice{}
		}
		a := make([]Value, rv.Len())
		var et types.Type
		if sl, ok := st.Underlying().(*types.Slice); ok {
			et = sl.Elem()
		}
		for i := range a {
			a[i] = p.fromGo(rv.Index(i), et)
		}
		return Slice{A: a}
	case reflect.Interface:
		if t == errorRType {
			if rv.IsNil() {
				return Iface{}
			}
			return p.nativeError(rv.Interface().(error))
		}
		if rv.IsNil() {
			return Iface{}
		}
	case reflect.Ptr:
		if rv.IsNil() {
			if _, isPtr := st.Underlying().(*types.Pointer); isPtr {
				return &Native{V: rv.Interface()}
			}
		}
		return &Native{V: rv.Interface()}
	case reflect.Struct:
		return &Native{V: rv.Interface()}
	}
	p.unsupported("native pass-through: cannot import %v", t)
	return nil
}

// nativeError imports a Go error as an *errors.errorString carrying its text.
func (p *Path) nativeError(err error) Iface {
	if ne, ok := err.(*strconv.NumError); ok {
		sp := p.E.Prog.ImportedPackage("strconv")
		var inner Iface
		name := ""
		switch ne.Err {
		case strconv.ErrRange:
			name = "ErrRange"
		case strconv.ErrSyntax:
			name = "ErrSyntax"
		}
		if g, ok := sp.Members[name].(*ssa.Global); ok && name != "" {
			inner, _ = (*p.W.globals[g]).(Iface)
		}
		if inner.T == nil {
			inner = p.errorsNew(ne.Err.Error())
		}
		cell := new(Value)
		*cell = Struct{ne.Func, ne.Num, inner}
		return Iface{T: types.NewPointer(sp.Type("NumError").Type()), V: cell}
	}
	return p.errorsNew(err.Error())
}

func (p *Path) nativeInvoke(rf reflect.Value, fn *ssa.Function, args []Value) Value {
	ft := rf.Type()
	in := make([]reflect.Value, len(args))
	for i, a := range args {
		var pt reflect.Type
		if ft.IsVariadic() && i >= ft.NumIn()-1 {
			pt = ft.In(ft.NumIn() - 1)
			if i == ft.NumIn()-1 && len(args) == ft.NumIn() {
				// ssa passes the variadic slice itself
				in[i] = p.toGo(a, pt)
				out := p.callNativeSlice(rf, in)
				return p.packResults(out, fn)
			}
		} else {
			pt = ft.In(i)
		}
		in[i] = p.toGo(a, pt)
	}
	var out []reflect.Value
	func() {
		defer func() {
			if r := recover(); r != nil {
				if _, ok := r.(abort); ok {
					panic(r)
				}
				msg := fmt.Sprint(r)
				panic(&goPanic{v: Iface{T: p.E.tString, V: msg}, msg: msg, at: fn.String()})
			}
		}()
		out = rf.Call(in)
	}()
	return p.packResults(out, fn)
}

func (p *Path) callNativeSlice(rf reflect.Value, in []reflect.Value) []reflect.Value {
	return rf.CallSlice(in)
}

func (p *Path) packResults(out []reflect.Value, fn *ssa.Function) Value {
	res := fn.Signature.Results()
	switch len(out) {
	case 0:
		return nil
	case 1:
		return p.fromGo(out[0], res.At(0).Type())
	}
	t := make(Tuple, len(out))
	for i, o := range out {
		t[i] = p.fromGo(o, res.At(i).Type())
	}
	return t
}

// nativeFuncs are body-less or unsafe-heavy std functions that are executed
// natively when all their arguments are concrete.
var nativeFuncs = map[string]reflect.Value{
	"time.Parse":               reflect.ValueOf(time.Parse),
	"time.ParseInLocation":     reflect.ValueOf(time.ParseInLocation),
	"time.Date":                reflect.ValueOf(time.Date),
	"time.Now":                 reflect.ValueOf(fixedNow),
	"time.FixedZone":           reflect.ValueOf(time.FixedZone),
	"time.LoadLocation":        reflect.ValueOf(time.LoadLocation),
	"regexp.MustCompile":       reflect.ValueOf(regexp.MustCompile),
	"regexp.Compile":           reflect.ValueOf(regexp.Compile),
	"regexp/syntax.Parse":      reflect.ValueOf(syntax.Parse),
	"unicode/utf8.ValidString": reflect.ValueOf(utf8.ValidString),
}

// fixedNow is the stub of time.Now: one fixed instant per run.
func fixedNow() time.Time { return time.Date(2024, 6, 24, 10, 17, 32, 0, time.UTC) }

// nativeCall handles functions without SSA bodies and methods on Native receivers.
func (p *Path) nativeCall(fn *ssa.Function, args []Value) (Value, bool) {
	if rf, ok := nativeFuncs[fn.String()]; ok {
		if !allConcrete(args) {
			cargs, ok := p.concretizeArgs(args)
			if !ok {
				if fn.String() == "time.Parse" {
					// text that does not range over a small domain: what it
					// parses to is stdlib behaviour; either an error or some time
					p.note("stub: time.Parse(symbolic text) = error, or a fixed instant")
					if p.choose(make([]*smt.Term, 2)) == 0 {
						return Tuple{&Native{V: time.Time{}}, p.errorsNew("parsing time: cannot parse")}, true
					}
					return Tuple{&Native{V: time.Date(2024, 2, 29, 13, 14, 15, 123456789, time.FixedZone("", 3600))}, Iface{}}, true
				}
				p.unsupported("symbolic argument to native %s", fn)
			}
			args = cargs
		}
		return p.nativeInvoke(rf, fn, args), true
	}
	return nil, false
}

// concretizeArgs forks over the values of symbolic scalar / string arguments
// that range over a small domain.
func (p *Path) concretizeArgs(args []Value) ([]Value, bool) {
	out := make([]Value, len(args))
	for i, a := range args {
		switch v := a.(type) {
		case *SymStr:
			s, ok := p.concretizeString(v)
			if !ok {
				return nil, false
			}
			out[i] = s
		case *smt.Term:
			t := p.simplify(v)
			vals := p.enumValues(t)
			if t.IsConst() {
				vals = []uint64{t.U}
			}
			if vals == nil || len(vals) == 0 {
				return nil, false
			}
			conds := make([]*smt.Term, len(vals))
			for k, u := range vals {
				switch t.Sort.K {
				case smt.KBool:
					conds[k] = p.C.Eq(t, p.C.Bool(u == 1))
				case smt.KFP:
					conds[k] = p.C.Eq(t, p.C.FP(math.Float64frombits(u)))
				default:
					conds[k] = p.C.Eq(t, p.C.BV(u, t.Sort.W))
				}
			}
			u := vals[p.chooseVerified(conds)]
			switch t.Sort.K {
			case smt.KBool:
				out[i] = u == 1
			case smt.KFP:
				out[i] = math.Float64frombits(u)
			default:
				// signed 64-bit by default (ints); narrower terms are unsigned bytes etc.
				if t.Sort.W == 64 {
					out[i] = int64(u)
				} else {
					out[i] = u
				}
			}
		default:
			if isSym(a) {
				return nil, false
			}
			out[i] = a
		}
	}
	return out, true
}

// nativeMethod dispatches a method call on a Native receiver via reflection.
func (p *Path) nativeMethod(fn *ssa.Function, args []Value) (Value, bool) {
	if fn.Signature.Recv() == nil || len(args) == 0 {
		return nil, false
	}
	n, ok := args[0].(*Native)
	if !ok {
		return nil, false
	}
	rv := reflect.ValueOf(n.V)
	m := rv.MethodByName(fn.Name())
	if !m.IsValid() {
		// pointer-receiver method on an addressable copy
		pv := reflect.New(rv.Type())
		pv.Elem().Set(rv)
		m = pv.MethodByName(fn.Name())
		if !m.IsValid() {
			return nil, false
		}
	}
	if !allConcrete(args[1:]) {
		if fn.String() == "(*regexp.Regexp).MatchString" {
			// what a pattern matches is stdlib behaviour: nondeterministic stub
			// (an uninterpreted function of the pattern and the subject bytes,
			// so that repeated evaluations agree)
			p.note("stub: regexp.MatchString(symbolic subject) = uninterpreted function of (pattern, subject)")
			re, _ := n.V.(*regexp.Regexp)
			h := uint32(2166136261)
			if re != nil {
				for _, c := range []byte(re.String()) {
					h = (h ^ uint32(c)) * 16777619
				}
			}
			bs := strBytes(args[1])
			ts := make([]*smt.Term, len(bs))
			for i, b := range bs {
				ts[i] = p.byteTerm(b)
			}
			if len(ts) == 0 {
				return re.MatchString(""), true
			}
			return fromTerm(p.C.Apply(fmt.Sprintf("rematch_%x_%d", h, len(ts)), smt.BoolSort, ts...), types.Typ[types.Bool]), true
		}
		cargs, ok := p.concretizeArgs(args[1:])
		if !ok {
			p.unsupported("symbolic argument to native method %s", fn)
		}
		return p.nativeInvoke(m, fn, cargs), true
	}
	return p.nativeInvoke(m, fn, args[1:]), true
}

func nativeIsNil(n *Native) bool {
	if n == nil || n.V == nil {
		return true
	}
	rv := reflect.ValueOf(n.V)
	return rv.Kind() == reflect.Ptr && rv.IsNil()
}

func nativeEqual(a, b *Native) bool {
	defer func() { recover() }()
	return a.V == b.V
}
