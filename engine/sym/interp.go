package sym

import (
	"fmt"
	"os"
	"go/constant"
	"go/token"
	"go/types"

	"golang.org/x/tools/go/ssa"

	"gosymx/smt"
)

type deferred struct {
	fn   Value
	args []Value
	tail *deferred
}

type frame struct {
	p         *Path
	fn        *ssa.Function
	info      *fnInfo
	caller    *frame
	env       []Value
	block     *ssa.BasicBlock
	prevBlock *ssa.BasicBlock
	defers    *deferred
	result    Value
	panicking bool
	panicVal  *goPanic
}

func (e *Engine) info(fn *ssa.Function) *fnInfo {
	e.mu.Lock()
	defer e.mu.Unlock()
	if fi, ok := e.fnInfo[fn]; ok {
		return fi
	}
	fi := &fnInfo{index: map[ssa.Value]int{}, consts: map[*ssa.Const]Value{}}
	add := func(v ssa.Value) {
		if _, ok := fi.index[v]; !ok {
			fi.index[v] = fi.n
			fi.n++
		}
	}
	for _, p := range fn.Params {
		add(p)
	}
	for _, fv := range fn.FreeVars {
		add(fv)
	}
	for _, l := range fn.Locals {
		add(l)
	}
	for _, b := range fn.Blocks {
		for _, ins := range b.Instrs {
			if v, ok := ins.(ssa.Value); ok {
				add(v)
			}
			for _, op := range ins.Operands(nil) {
				if op == nil || *op == nil {
					continue
				}
				if c, ok := (*op).(*ssa.Const); ok {
					if _, ok := fi.consts[c]; !ok {
						fi.consts[c] = constValue(c)
					}
				}
			}
		}
	}
	e.fnInfo[fn] = fi
	return fi
}

func constValue(c *ssa.Const) Value {
	if c.Value == nil {
		return zero(c.Type())
	}
	t := c.Type().Underlying()
	if b, ok := t.(*types.Basic); ok {
		switch {
		case b.Info()&types.IsBoolean != 0:
			return constant.BoolVal(c.Value)
		case b.Info()&types.IsString != 0:
			if c.Value.Kind() == constant.String {
				return constant.StringVal(c.Value)
			}
			return string(rune(c.Int64()))
		case b.Info()&types.IsUnsigned != 0:
			return wrapInt(c.Uint64(), b)
		case b.Info()&types.IsInteger != 0:
			return wrapInt(uint64(c.Int64()), b)
		case b.Info()&types.IsFloat != 0:
			f := c.Float64()
			if b.Kind() == types.Float32 {
				f = float64(float32(f))
			}
			return f
		case b.Info()&types.IsComplex != 0:
			return c.Complex128()
		}
	}
	if _, ok := t.(*types.TypeParam); ok {
		panic("constValue: type param")
	}
	panic(fmt.Sprintf("constValue: %v %v", c, c.Type()))
}

func (fr *frame) get(v ssa.Value) Value {
	switch v := v.(type) {
	case nil:
		return nil
	case *ssa.Const:
		if r, ok := fr.info.consts[v]; ok {
			return r
		}
		return constValue(v)
	case *ssa.Global:
		if g, ok := fr.p.W.globals[v]; ok {
			return g
		}
		panic(fmt.Sprintf("get: no global %v", v))
	case *ssa.Function, *ssa.Builtin:
		return v
	}
	if i, ok := fr.info.index[v]; ok {
		return fr.env[i]
	}
	panic(fmt.Sprintf("get: no value for %T %v in %v", v, v.Name(), fr.fn))
}

func (fr *frame) set(v ssa.Value, x Value) {
	fr.env[fr.info.index[v]] = x
}

func (p *Path) runtimePanic(msg string) {
	at := ""
	if n := len(p.stack); n > 0 {
		at = p.stack[n-1].String()
	}
	if os.Getenv("GOSYMX_DEBUG") != "" {
		fmt.Fprintf(os.Stderr, "runtime panic: %s\n%s", msg, p.stackString())
	}
	panic(&goPanic{v: Iface{T: p.E.tString, V: msg}, msg: "runtime error: " + msg, at: at})
}

// callFn interprets fn(args) and returns its result.
func (p *Path) callFn(caller *frame, fnv Value, args []Value) Value {
	switch fn := fnv.(type) {
	case *ssa.Function:
		if fn == nil {
			p.runtimePanic("call of nil function")
		}
		return p.callSSA(caller, fn, args, nil)
	case *Closure:
		return p.callSSA(caller, fn.Fn, args, fn.Env)
	case *ssa.Builtin:
		return p.callBuiltin(caller, fn, args)
	}
	panic(fmt.Sprintf("cannot call %T", fnv))
}

func (p *Path) callSSA(caller *frame, fn *ssa.Function, args []Value, env []Value) Value {
	if fn.Parent() == nil && p.bypass[fn] == 0 {
		if fn.Name() == "init" && fn.Pkg != nil && fn.Signature.Recv() == nil && fn == fn.Pkg.Func("init") && !p.E.InitPkgs[fn.Pkg.Pkg.Path()] {
			return nil // package initialiser outside the allow-list
		}
		if fn.Signature.Recv() != nil && len(args) > 0 {
			if _, isNative := args[0].(*Native); isNative {
				if r, ok := p.nativeMethod(fn, args); ok {
					return r
				}
			}
		}
		if ext, ok := externals[fn.String()]; ok {
			if r, handled := ext(p, caller, fn, args); handled {
				return r
			}
		} else if _, ok := nativeFuncs[fn.String()]; ok {
			if r, ok := p.nativeCall(fn, args); ok {
				return r
			}
		} else if fn.Synthetic != "" && fn.Origin() != nil {
			// instantiated generic: look up by origin name
			if ext, ok := externals[fn.Origin().String()]; ok {
				if r, handled := ext(p, caller, fn, args); handled {
					return r
				}
			}
		}
	}
	if fn.Blocks == nil {
		// method of a Native receiver?
		if r, ok := p.nativeCall(fn, args); ok {
			return r
		}
		p.unsupported("no body for %s", fn)
	}
	if fn.TypeParams().Len() > 0 && len(fn.TypeArgs()) == 0 {
		p.unsupported("uninstantiated generic %s", fn)
	}
	if p.funcs != nil {
		p.funcs[fn]++
	}
	p.stack = append(p.stack, fn)
	defer func(n int) { p.stack = p.stack[:n] }(len(p.stack) - 1)
	p.depth++
	if p.depth > 400 {
		p.abortf("budget", "call depth exceeded in %s", fn)
	}
	fi := p.E.info(fn)
	fr := &frame{p: p, fn: fn, info: fi, caller: caller}
	fr.env = make([]Value, fi.n)
	fr.block = fn.Blocks[0]
	for _, l := range fn.Locals {
		cell := new(Value)
		*cell = zero(deref(l.Type()))
		fr.env[fi.index[l]] = cell
	}
	for i, prm := range fn.Params {
		fr.env[fi.index[prm]] = args[i]
	}
	for i, fv := range fn.FreeVars {
		fr.env[fi.index[fv]] = env[i]
	}
	for fr.block != nil {
		fr.run()
	}
	p.depth--
	return fr.result
}

func deref(t types.Type) types.Type {
	if pt, ok := t.Underlying().(*types.Pointer); ok {
		return pt.Elem()
	}
	panic(fmt.Sprintf("deref: %v", t))
}

// run executes until return, or until a panic has been recovered.
func (fr *frame) run() {
	defer func() {
		if fr.block == nil {
			return // normal return
		}
		r := recover()
		gp, ok := r.(*goPanic)
		if !ok {
			if ab, isAbort := r.(abort); (!isAbort || ab.kind == "unsupported") && fr.p.errStack == "" {
				fr.p.errStack = fr.p.stackString()
			}
			panic(r) // abort or engine bug: propagate
		}
		fr.panicking = true
		fr.panicVal = gp
		fr.runDefers()
		// recovered
		fr.block = fr.fn.Recover
		if fr.block == nil {
			// no named results: return zero values
			fr.result = zeroResult(fr.fn)
		}
	}()
	p := fr.p
	for {
		instrs := fr.block.Instrs
		i := fr.phis()
		for ; i < len(instrs); i++ {
			p.steps++
			if p.steps > p.E.MaxSteps {
				p.abortf("budget", "step budget %d exhausted in %s", p.E.MaxSteps, fr.fn)
			}
			k := fr.visit(instrs[i])
			if k == kReturn {
				return
			}
			if k == kJump {
				break
			}
		}
	}
}

const (
	kNext = iota
	kJump
	kReturn
)

func zeroResult(fn *ssa.Function) Value {
	res := fn.Signature.Results()
	switch res.Len() {
	case 0:
		return nil
	case 1:
		return zero(res.At(0).Type())
	}
	return zero(res)
}

func (fr *frame) runDefers() {
	for d := fr.defers; d != nil; d = fr.defers {
		fr.defers = d.tail
		func() {
			defer func() {
				if r := recover(); r != nil {
					if gp, ok := r.(*goPanic); ok {
						// new panic replaces the old one; continue running defers
						fr.panicking = true
						fr.panicVal = gp
						return
					}
					panic(r)
				}
			}()
			fr.p.callFn(fr, d.fn, d.args)
		}()
	}
	if fr.panicking {
		panic(fr.panicVal)
	}
}

func (fr *frame) phis() int {
	instrs := fr.block.Instrs
	n := 0
	for n < len(instrs) {
		if _, ok := instrs[n].(*ssa.Phi); !ok {
			break
		}
		n++
	}
	if n == 0 {
		return 0
	}
	pred := -1
	for i, b := range fr.block.Preds {
		if b == fr.prevBlock {
			pred = i
			break
		}
	}
	tmp := make([]Value, n)
	for i := 0; i < n; i++ {
		tmp[i] = fr.get(instrs[i].(*ssa.Phi).Edges[pred])
	}
	for i := 0; i < n; i++ {
		fr.set(instrs[i].(*ssa.Phi), tmp[i])
	}
	return n
}

func (fr *frame) jump(succ int) {
	fr.prevBlock, fr.block = fr.block, fr.block.Succs[succ]
}

// visit executes one instruction and returns kNext, kJump or kReturn.
func (fr *frame) visit(instr ssa.Instruction) int {
	p := fr.p
	switch instr := instr.(type) {
	case *ssa.DebugRef:
	case *ssa.UnOp:
		fr.set(instr, p.unop(fr, instr, fr.get(instr.X)))
	case *ssa.BinOp:
		fr.set(instr, p.binop(instr.Op, instr.X.Type(), fr.get(instr.X), fr.get(instr.Y)))
	case *ssa.Call:
		fn, args := fr.prepareCall(&instr.Call)
		fr.set(instr, p.callFn(fr, fn, args))
	case *ssa.ChangeInterface:
		fr.set(instr, fr.get(instr.X))
	case *ssa.ChangeType:
		fr.set(instr, fr.get(instr.X))
	case *ssa.Convert:
		fr.set(instr, p.conv(instr.Type(), instr.X.Type(), fr.get(instr.X)))
	case *ssa.MakeInterface:
		fr.set(instr, Iface{T: instr.X.Type(), V: fr.get(instr.X)})
	case *ssa.Extract:
		fr.set(instr, fr.get(instr.Tuple).(Tuple)[instr.Index])
	case *ssa.Slice:
		fr.set(instr, p.slice(instr, fr.get(instr.X), fr.get(instr.Low), fr.get(instr.High), fr.get(instr.Max)))
	case *ssa.Return:
		switch len(instr.Results) {
		case 0:
		case 1:
			fr.result = fr.get(instr.Results[0])
		default:
			res := make(Tuple, len(instr.Results))
			for i, r := range instr.Results {
				res[i] = fr.get(r)
			}
			fr.result = res
		}
		fr.block = nil
		return kReturn
	case *ssa.RunDefers:
		fr.runDefers()
	case *ssa.Panic:
		v := fr.get(instr.X)
		panic(&goPanic{v: v, msg: p.panicString(v), at: fr.fn.String()})
	case *ssa.Store:
		addr := fr.get(instr.Addr)
		p.storeTo(addr, fr.get(instr.Val))
	case *ssa.If:
		if p.branch(fr.get(instr.Cond)) {
			fr.jump(0)
		} else {
			fr.jump(1)
		}
		return kJump
	case *ssa.Jump:
		fr.jump(0)
		return kJump
	case *ssa.Defer:
		fn, args := fr.prepareCall(&instr.Call)
		if instr.DeferStack != nil {
			p.unsupported("defer with explicit DeferStack in %s", fr.fn)
		}
		fr.defers = &deferred{fn: fn, args: args, tail: fr.defers}
	case *ssa.Go:
		p.unsupported("go statement in %s", fr.fn)
	case *ssa.MakeChan:
		fr.set(instr, &Chan{})
	case *ssa.Alloc:
		var addr *Value
		if instr.Heap {
			addr = new(Value)
			fr.set(instr, addr)
		} else {
			addr = fr.get(instr).(*Value)
		}
		*addr = zero(deref(instr.Type()))
	case *ssa.MakeSlice:
		n := p.concreteInt(fr.get(instr.Len), "make len")
		c := p.concreteInt(fr.get(instr.Cap), "make cap")
		if n < 0 || c < n || c > 1<<24 {
			p.runtimePanic("makeslice: len out of range")
		}
		a := make([]Value, c)
		et := instr.Type().Underlying().(*types.Slice).Elem()
		for i := range a {
			a[i] = zero(et)
		}
		fr.set(instr, Slice{A: a[:n]})
	case *ssa.MakeMap:
		fr.set(instr, &Map{KT: instr.Type().Underlying().(*types.Map).Key()})
	case *ssa.Range:
		fr.set(instr, p.rangeIter(fr.get(instr.X)))
	case *ssa.Next:
		fr.set(instr, p.next(fr.get(instr.Iter), instr))
	case *ssa.FieldAddr:
		ptr := p.concretePtr(fr.get(instr.X))
		if ptr == nil {
			p.runtimePanic("invalid memory address or nil pointer dereference")
		}
		fr.set(instr, &(*ptr).(Struct)[instr.Field])
	case *ssa.Field:
		fr.set(instr, copyVal(fr.get(instr.X).(Struct)[instr.Field]))
	case *ssa.IndexAddr:
		fr.set(instr, p.indexAddr(fr.get(instr.X), fr.get(instr.Index)))
	case *ssa.Index:
		fr.set(instr, p.index(fr.get(instr.X), fr.get(instr.Index), instr.X.Type()))
	case *ssa.Lookup:
		fr.set(instr, p.lookup(instr, fr.get(instr.X), fr.get(instr.Index)))
	case *ssa.MapUpdate:
		p.mapUpdate(fr.get(instr.Map).(*Map), fr.get(instr.Key), fr.get(instr.Value))
	case *ssa.TypeAssert:
		fr.set(instr, p.typeAssert(instr, fr.get(instr.X).(Iface)))
	case *ssa.MakeClosure:
		b := make([]Value, len(instr.Bindings))
		for i, x := range instr.Bindings {
			b[i] = fr.get(x)
		}
		fr.set(instr, &Closure{Fn: instr.Fn.(*ssa.Function), Env: b})
	case *ssa.Select:
		fr.set(instr, p.selectInstr(fr, instr))
	case *ssa.Send:
		p.unsupported("channel send in %s", fr.fn)
	case *ssa.SliceToArrayPointer:
		p.unsupported("SliceToArrayPointer in %s", fr.fn)
	case *ssa.MultiConvert:
		p.unsupported("MultiConvert in %s", fr.fn)
	default:
		panic(fmt.Sprintf("unexpected instruction %T", instr))
	}
	return kNext
}

func (fr *frame) prepareCall(call *ssa.CallCommon) (Value, []Value) {
	p := fr.p
	v := fr.get(call.Value)
	var fn Value
	var args []Value
	if call.Method == nil {
		fn = v
	} else {
		recv := p.force(v.(Iface))
		if recv.T == nil {
			p.runtimePanic("invalid memory address or nil pointer dereference (method on nil interface)")
		}
		f := p.E.Prog.LookupMethod(recv.T, call.Method.Pkg(), call.Method.Name())
		if f == nil {
			panic(fmt.Sprintf("method set of %v lacks %s", recv.T, call.Method))
		}
		fn = f
		args = append(args, recv.V)
	}
	for _, a := range call.Args {
		args = append(args, fr.get(a))
	}
	return fn, args
}

func (p *Path) concreteInt(v Value, what string) int {
	switch v := v.(type) {
	case int64:
		return int(v)
	case uint64:
		return int(v)
	case *smt.Term:
		if u, ok := v.BVVal(); ok {
			return int(int64(u))
		}
		p.unsupported("symbolic %s", what)
	}
	panic(fmt.Sprintf("concreteInt: %T", v))
}

func (p *Path) panicString(v Value) string {
	if i, ok := v.(Iface); ok {
		switch x := i.V.(type) {
		case string:
			return x
		}
		if i.T != nil {
			return fmt.Sprintf("panic(%v)", i.T)
		}
	}
	return "panic"
}

func (p *Path) selectInstr(fr *frame, instr *ssa.Select) Value {
	if instr.Blocking || len(instr.States) != 1 || instr.States[0].Dir != types.RecvOnly {
		p.unsupported("select shape in %s", fr.fn)
	}
	ch, _ := fr.get(instr.States[0].Chan).(*Chan)
	et := instr.States[0].Chan.Type().Underlying().(*types.Chan).Elem()
	if ch == nil || !ch.Closed {
		if ch != nil {
			// open channel nobody sends on: not ready
		}
		return Tuple{int64(-1), false, zero(et)}
	}
	return Tuple{int64(0), false, zero(et)}
}

var _ = token.NoPos
