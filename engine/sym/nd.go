package sym

import (
	"fmt"
	"go/types"
	"math"
	"strconv"

	"golang.org/x/tools/go/ssa"

	"gosymx/smt"
)

// ---- lazy JSON values ----

func (p *Path) newLazy(spec JSONSpec) Iface {
	p.lazyN++
	l := &Lazy{Spec: spec, ID: p.lazyN}
	return Iface{L: l}
}

// force resolves a lazy any by forking over its allowed kinds.
func (p *Path) force(x Iface) Iface {
	l := x.L
	if l == nil {
		return x
	}
	if l.Forced {
		return l.Val
	}
	spec := l.Spec
	var kinds []int
	for k := KNull; k <= KNumOOR; k <<= 1 {
		if spec.Kinds&k == 0 {
			continue
		}
		if (k == KArray || k == KObject) && spec.Depth <= 0 {
			continue
		}
		kinds = append(kinds, k)
	}
	if len(kinds) == 0 {
		kinds = []int{KNull}
	}
	k := kinds[p.choose(make([]*smt.Term, len(kinds)))]
	l.Kind = k
	E := p.E
	var v Iface
	switch k {
	case KNull:
		v = Iface{}
	case KBool:
		b := p.newVar("b", smt.BoolSort)
		l.Leaf = b
		v = Iface{T: E.tBool, V: b}
	case KFloat:
		f := p.newVar("f", smt.FPSort)
		p.assume(p.C.Not(p.C.Or(p.C.FpIsNaN(f), p.C.FpIsInf(f))))
		l.Leaf = f
		v = Iface{T: E.tFloat64, V: f}
	case KInt64:
		i := p.newVar("i", smt.BVSort(64))
		l.Leaf = i
		v = Iface{T: E.tInt64, V: i}
	case KNumber, KNumOOR:
		var an *AbsNum
		if k == KNumOOR {
			an = &AbsNum{Mode: 2}
		} else {
			an = p.newAbsNum(p.choose(make([]*smt.Term, 2)))
		}
		l.Leaf = an
		v = Iface{T: E.tJSONNumber, V: an}
	case KString:
		n := p.choose(make([]*smt.Term, spec.StrLen+1))
		s := p.newSymStr(n, spec.ASCII)
		l.Leaf = s
		v = Iface{T: E.tString, V: s}
	case KArray:
		n := p.choose(make([]*smt.Term, spec.Width+1))
		sub := spec
		sub.Depth--
		a := make([]Value, n)
		for i := range a {
			e := p.newLazy(sub)
			l.Elems = append(l.Elems, e.L)
			a[i] = e
		}
		if n == 0 {
			a = make([]Value, 0)
		}
		v = Iface{T: E.tSliceAny, V: Slice{A: a}}
	case KObject:
		nk := len(spec.Keys)
		var masks []int
		for m := 0; m < 1<<uint(nk); m++ {
			c := 0
			for b := 0; b < nk; b++ {
				if m&(1<<uint(b)) != 0 {
					c++
				}
			}
			if c <= spec.Width {
				masks = append(masks, m)
			}
		}
		m := masks[p.choose(make([]*smt.Term, len(masks)))]
		sub := spec
		sub.Depth--
		mp := &Map{KT: E.tString}
		for b := 0; b < nk; b++ {
			if m&(1<<uint(b)) == 0 {
				continue
			}
			e := p.newLazy(sub)
			l.Elems = append(l.Elems, e.L)
			l.Keys = append(l.Keys, spec.Keys[b])
			mp.Keys = append(mp.Keys, spec.Keys[b])
			mp.Vals = append(mp.Vals, e)
		}
		v = Iface{T: E.tMapAny, V: mp}
	}
	l.Forced = true
	l.Val = v
	return v
}

func (p *Path) newAbsNum(mode int) *AbsNum {
	an := &AbsNum{Mode: mode}
	switch mode {
	case 0:
		an.I = p.newVar("n", smt.BVSort(64))
		an.F = p.C.FpFromSBV(an.I.(*smt.Term))
	case 1:
		f := p.newVar("g", smt.FPSort)
		p.assume(p.C.Not(p.C.Or(p.C.FpIsNaN(f), p.C.FpIsInf(f))))
		an.F = f
	}
	return an
}

func (p *Path) newSymStr(n int, ascii bool) Value {
	if n == 0 {
		return ""
	}
	b := make([]Value, n)
	for i := range b {
		t := p.newVar("c", smt.BVSort(8))
		if ascii {
			p.assume(p.C.And(p.C.BvUlt(t, p.C.BV(0x80, 8)), p.C.BvUlt(p.C.BV(0, 8), t)))
		}
		b[i] = t
	}
	return &SymStr{B: b}
}

// ---- nd.* intrinsics ----

type extFn func(p *Path, caller *frame, fn *ssa.Function, args []Value) (Value, bool)

const ndPath = "harness/nd"

func init() {
	reg := func(name string, f extFn) { externals[ndPath+"."+name] = f }
	reg("Bool", func(p *Path, _ *frame, _ *ssa.Function, _ []Value) (Value, bool) {
		v := p.newVar("b", smt.BoolSort)
		p.inputs = append(p.inputs, InputRec{Kind: "bool", Val: v})
		return v, true
	})
	reg("Int64", func(p *Path, _ *frame, _ *ssa.Function, _ []Value) (Value, bool) {
		v := p.newVar("i", smt.BVSort(64))
		p.inputs = append(p.inputs, InputRec{Kind: "int", Val: v})
		return v, true
	})
	reg("Int", func(p *Path, _ *frame, _ *ssa.Function, _ []Value) (Value, bool) {
		v := p.newVar("i", smt.BVSort(64))
		p.inputs = append(p.inputs, InputRec{Kind: "int", Val: v})
		return v, true
	})
	reg("Uint32", func(p *Path, _ *frame, _ *ssa.Function, _ []Value) (Value, bool) {
		v := p.newVar("u", smt.BVSort(32))
		p.inputs = append(p.inputs, InputRec{Kind: "uint", Val: v})
		return v, true
	})
	reg("Byte", func(p *Path, _ *frame, _ *ssa.Function, _ []Value) (Value, bool) {
		v := p.newVar("c", smt.BVSort(8))
		p.inputs = append(p.inputs, InputRec{Kind: "uint", Val: v})
		return v, true
	})
	reg("Float64", func(p *Path, _ *frame, _ *ssa.Function, _ []Value) (Value, bool) {
		v := p.newVar("f", smt.FPSort)
		p.inputs = append(p.inputs, InputRec{Kind: "float", Val: v})
		return v, true
	})
	reg("FiniteFloat64", func(p *Path, _ *frame, _ *ssa.Function, _ []Value) (Value, bool) {
		v := p.newVar("f", smt.FPSort)
		p.assume(p.C.Not(p.C.Or(p.C.FpIsNaN(v), p.C.FpIsInf(v))))
		p.inputs = append(p.inputs, InputRec{Kind: "float", Val: v})
		return v, true
	})
	reg("IntRange", func(p *Path, _ *frame, _ *ssa.Function, a []Value) (Value, bool) {
		lo, hi := a[0].(int64), a[1].(int64)
		v := p.newVar("i", smt.BVSort(64))
		p.assume(p.C.And(p.C.BvSle(p.C.BVS(lo, 64), v), p.C.BvSle(v, p.C.BVS(hi, 64))))
		p.inputs = append(p.inputs, InputRec{Kind: "int", Val: v})
		return v, true
	})
	reg("Choice", func(p *Path, _ *frame, _ *ssa.Function, a []Value) (Value, bool) {
		n := int(a[0].(int64))
		if n <= 0 {
			p.abortf("assume", "Choice(0)")
		}
		d := int64(p.choose(make([]*smt.Term, n)))
		p.inputs = append(p.inputs, InputRec{Kind: "choice", Val: d})
		return d, true
	})
	reg("String", func(p *Path, _ *frame, _ *ssa.Function, a []Value) (Value, bool) {
		n := p.choose(make([]*smt.Term, int(a[0].(int64))+1))
		s := p.newSymStr(n, false)
		p.inputs = append(p.inputs, InputRec{Kind: "string", Val: s})
		return s, true
	})
	reg("StringN", func(p *Path, _ *frame, _ *ssa.Function, a []Value) (Value, bool) {
		s := p.newSymStr(int(a[0].(int64)), false)
		p.inputs = append(p.inputs, InputRec{Kind: "string", Val: s})
		return s, true
	})
	reg("ASCII", func(p *Path, _ *frame, _ *ssa.Function, a []Value) (Value, bool) {
		n := p.choose(make([]*smt.Term, int(a[0].(int64))+1))
		s := p.newSymStr(n, true)
		p.inputs = append(p.inputs, InputRec{Kind: "string", Val: s})
		return s, true
	})
	reg("ASCIIN", func(p *Path, _ *frame, _ *ssa.Function, a []Value) (Value, bool) {
		s := p.newSymStr(int(a[0].(int64)), true)
		p.inputs = append(p.inputs, InputRec{Kind: "string", Val: s})
		return s, true
	})
	reg("Number", func(p *Path, _ *frame, _ *ssa.Function, a []Value) (Value, bool) {
		// modes: bit0 integer, bit1 float, bit2 out-of-range
		modes := int(a[0].(int64))
		var ms []int
		for m := 0; m < 3; m++ {
			if modes&(1<<uint(m)) != 0 {
				ms = append(ms, m)
			}
		}
		an := p.newAbsNum(ms[p.choose(make([]*smt.Term, len(ms)))])
		p.inputs = append(p.inputs, InputRec{Kind: "number", Val: an})
		return an, true
	})
	reg("JSON", func(p *Path, _ *frame, _ *ssa.Function, a []Value) (Value, bool) {
		s := a[0].(Struct)
		spec := JSONSpec{
			Depth:  int(s[0].(int64)),
			Width:  int(s[1].(int64)),
			Kinds:  int(s[2].(int64)),
			StrLen: int(s[3].(int64)),
			ASCII:  s[5].(bool),
		}
		for _, k := range s[4].(Slice).A {
			spec.Keys = append(spec.Keys, k.(string))
		}
		v := p.newLazy(spec)
		p.inputs = append(p.inputs, InputRec{Kind: "json", Val: v.L})
		return v, true
	})
	reg("Assume", func(p *Path, _ *frame, _ *ssa.Function, a []Value) (Value, bool) {
		switch c := a[0].(type) {
		case bool:
			if !c {
				p.abortf("assume", "assumption false")
			}
		case *smt.Term:
			// the assumption must be satisfiable with the path condition
			if p.pos >= len(p.prefix) {
				if p.feasible(c) == smt.Unsat {
					p.abortf("assume", "assumption infeasible")
				}
			}
			p.assume(c)
		}
		return nil, true
	})
	reg("Assert", func(p *Path, _ *frame, _ *ssa.Function, a []Value) (Value, bool) {
		p.assertion(a[0], a[1])
		return nil, true
	})
	reg("Cover", func(p *Path, _ *frame, _ *ssa.Function, a []Value) (Value, bool) {
		if s, ok := a[0].(string); ok {
			p.covers[s] = true
		}
		return nil, true
	})
	reg("All", func(p *Path, _ *frame, _ *ssa.Function, a []Value) (Value, bool) {
		var acc Value = true
		for _, c := range a[0].(Slice).A {
			acc = p.and(acc, c)
		}
		return acc, true
	})
	reg("Any", func(p *Path, _ *frame, _ *ssa.Function, a []Value) (Value, bool) {
		acc := p.C.False()
		for _, c := range a[0].(Slice).A {
			acc = p.C.Or(acc, p.term(c, types.Typ[types.Bool]))
		}
		return fromTerm(acc, types.Typ[types.Bool]), true
	})
	reg("Implies", func(p *Path, _ *frame, _ *ssa.Function, a []Value) (Value, bool) {
		r := p.C.Implies(p.term(a[0], types.Typ[types.Bool]), p.term(a[1], types.Typ[types.Bool]))
		return fromTerm(r, types.Typ[types.Bool]), true
	})
	reg("Ite", func(p *Path, _ *frame, _ *ssa.Function, a []Value) (Value, bool) {
		// Ite(c bool, x, y int64) int64
		c := p.term(a[0], types.Typ[types.Bool])
		r := p.C.Ite(c, p.term(a[1], types.Typ[types.Int64]), p.term(a[2], types.Typ[types.Int64]))
		return fromTerm(r, types.Typ[types.Int64]), true
	})
	reg("SameObject", func(p *Path, _ *frame, _ *ssa.Function, a []Value) (Value, bool) {
		x, y := p.force(a[0].(Iface)), p.force(a[1].(Iface))
		return sameObject(x.V, y.V), true
	})
	reg("Option", func(p *Path, _ *frame, _ *ssa.Function, a []Value) (Value, bool) {
		switch a[0].(string) {
		case "exact-small-floats":
			p.exactSmallFloats = true
		case "interpret-format-int":
			p.smallInts = true
		case "format-errors":
			p.formatErrors = true
		}
		return nil, true
	})
	reg("Thorough", func(p *Path, _ *frame, _ *ssa.Function, _ []Value) (Value, bool) {
		return p.E.Thorough, true
	})
	reg("Symbolic", func(p *Path, _ *frame, _ *ssa.Function, _ []Value) (Value, bool) {
		return true, true
	})
	reg("Freeze", func(p *Path, _ *frame, _ *ssa.Function, a []Value) (Value, bool) {
		p.freeze(a[0].(Slice).A)
		return nil, true
	})
	reg("Thaw", func(p *Path, _ *frame, _ *ssa.Function, _ []Value) (Value, bool) {
		hit := p.frozenHit
		p.frozenOn = false
		p.frozenHit = ""
		p.frozen = nil
		return hit, true
	})
	reg("AddOverflows", func(p *Path, _ *frame, _ *ssa.Function, a []Value) (Value, bool) {
		x, y := p.term(a[0], types.Typ[types.Int64]), p.term(a[1], types.Typ[types.Int64])
		wide := p.C.BvAdd(p.C.Sext(x, 65), p.C.Sext(y, 65))
		return fromTerm(p.C.Not(p.C.Eq(wide, p.C.Sext(p.C.BvAdd(x, y), 65))), types.Typ[types.Bool]), true
	})
	reg("SubOverflows", func(p *Path, _ *frame, _ *ssa.Function, a []Value) (Value, bool) {
		x, y := p.term(a[0], types.Typ[types.Int64]), p.term(a[1], types.Typ[types.Int64])
		wide := p.C.BvSub(p.C.Sext(x, 65), p.C.Sext(y, 65))
		return fromTerm(p.C.Not(p.C.Eq(wide, p.C.Sext(p.C.BvSub(x, y), 65))), types.Typ[types.Bool]), true
	})
	reg("MulOverflows", func(p *Path, _ *frame, _ *ssa.Function, a []Value) (Value, bool) {
		x, y := p.term(a[0], types.Typ[types.Int64]), p.term(a[1], types.Typ[types.Int64])
		wide := p.C.BvMul(p.C.Sext(x, 128), p.C.Sext(y, 128))
		return fromTerm(p.C.Not(p.C.Eq(wide, p.C.Sext(p.C.BvMul(x, y), 128))), types.Typ[types.Bool]), true
	})
	// ExactIntFloatCmp(i int64, f float64) int: sign of (i - f) over the reals, f finite
	reg("CmpIntFloat", func(p *Path, _ *frame, _ *ssa.Function, a []Value) (Value, bool) {
		return p.cmpIntFloat(p.term(a[0], types.Typ[types.Int64]), p.term(a[1], types.Typ[types.Float64])), true
	})
	reg("RoundFloat", func(p *Path, _ *frame, _ *ssa.Function, a []Value) (Value, bool) {
		// RoundFloat(f, mode): 0 RNE 1 RNA 2 ceil 3 floor 4 trunc
		return fromTerm(p.C.FpRound(p.term(a[0], types.Typ[types.Float64]), int(a[1].(int64))), types.Typ[types.Float64]), true
	})
}

// cmpIntFloat compares an int64 with a finite float64 exactly.
func (p *Path) cmpIntFloat(i, f *smt.Term) Value {
	C := p.C
	two63 := C.FP(9223372036854775808.0)
	big := C.FpLe(two63, f)             // f >= 2^63  => i < f
	small := C.FpLt(f, C.FpNeg(two63)) // f < -2^63 => i > f
	fl := C.FpRound(f, smt.RMTowardNeg)
	fi := C.FpToSBV(fl, 64) // floor(f) as int64, valid when in range
	frac := C.Not(C.FpEq(fl, f))
	// i vs floor(f): i < fi => -1 ; i > fi => +1 ; equal => (frac ? -1 : 0)
	lt := C.BvSlt(i, fi)
	gt := C.BvSlt(fi, i)
	m1 := C.BVS(-1, 64)
	p1 := C.BVS(1, 64)
	z := C.BVS(0, 64)
	mid := C.Ite(lt, m1, C.Ite(gt, p1, C.Ite(frac, m1, z)))
	r := C.Ite(big, m1, C.Ite(small, p1, mid))
	return fromTerm(r, types.Typ[types.Int64])
}

func sameObject(x, y Value) bool {
	switch x := x.(type) {
	case Slice:
		ys, ok := y.(Slice)
		if !ok {
			return false
		}
		if len(x.A) == 0 || len(ys.A) == 0 {
			return len(x.A) == 0 && len(ys.A) == 0 && (x.A == nil) == (ys.A == nil)
		}
		return &x.A[0] == &ys.A[0] && len(x.A) == len(ys.A)
	case *Map:
		ym, ok := y.(*Map)
		return ok && x == ym
	case *Value:
		yp, ok := y.(*Value)
		return ok && x == yp
	}
	return false
}

func (p *Path) assertion(cond Value, label Value) {
	lab, _ := label.(string)
	if lab == "" {
		lab = "assert"
	}
	p.asserts++
	switch c := cond.(type) {
	case bool:
		if !c {
			p.violation(lab, "assertion is false on this path")
		}
	case *smt.Term:
		c = p.simplify(c)
		if b, ok := c.BoolVal(); ok {
			if !b {
				p.violation(lab, "assertion is false on this path")
			}
			return
		}
		if p.saturated(lab) {
			p.assume(c)
			return
		}
		neg := p.C.Not(c)
		p.S.Tag = lab
		var vec []any
		res := p.feasible(neg)
		if res == smt.Sat {
			vec, res = p.materialiseWith(neg)
		}
		p.S.Tag = ""
		switch res {
		case smt.Sat:
			v := &Violation{Label: lab, Detail: "assertion can be false", Vector: vec, Log: append([]int32(nil), p.log...)}
			p.violations = append(p.violations, v)
			p.countViolation(lab)
			// continue with the assertion assumed, to find further distinct labels
			p.assume(c)
			if r, _ := p.query(nil); r == smt.Unsat {
				p.abortf("assume", "assertion never holds on this path")
			}
		case smt.Unknown:
			p.unknownAsserts++
			p.note("assertion undecided (solver unknown): " + lab)
			p.assume(c)
		default:
			p.assume(c)
		}
	default:
		panic(fmt.Sprintf("Assert on %T", cond))
	}
}

// ---- materialisation of inputs from a model ----

func (p *Path) collectVars() []*smt.Term {
	return p.C.Vars
}

func (p *Path) materialise(extra *smt.Term) ([]any, bool) {
	v, r := p.materialiseWith(extra)
	return v, r == smt.Sat
}

func (p *Path) materialiseWith(extra *smt.Term) ([]any, smt.Result) {
	res, model := p.query(extra)
	if res != smt.Sat {
		return nil, res
	}
	ev := &evaluator{model: model, memo: map[int]smt.ModelVal{}}
	var out []any
	for _, in := range p.inputs {
		out = append(out, p.matInput(ev, in))
	}
	return out, smt.Sat
}

type evaluator struct {
	model map[string]smt.ModelVal
	memo  map[int]smt.ModelVal
}

func (ev *evaluator) scalar(v Value) any {
	switch v := v.(type) {
	case *smt.Term:
		if v.Op == smt.OVar {
			mv, ok := ev.model[v.Name]
			if !ok {
				mv = smt.ModelVal{Sort: v.Sort}
			}
			switch v.Sort.K {
			case smt.KBool:
				return mv.U == 1
			case smt.KFP:
				return math.Float64frombits(mv.U)
			default:
				return mv.U
			}
		}
		if v.IsConst() {
			switch v.Sort.K {
			case smt.KBool:
				return v.U == 1
			case smt.KFP:
				return math.Float64frombits(v.U)
			}
			return v.U
		}
		panic("evaluator: non-variable leaf " + v.String())
	}
	return v
}

func floatRepr(f float64) map[string]any {
	return map[string]any{"bits": strconv.FormatUint(math.Float64bits(f), 16), "text": strconv.FormatFloat(f, 'g', -1, 64)}
}

func (p *Path) matStr(ev *evaluator, s Value) string {
	switch s := s.(type) {
	case string:
		return s
	case *SymStr:
		b := make([]byte, len(s.B))
		for i, x := range s.B {
			switch y := ev.scalar(x).(type) {
			case uint64:
				b[i] = byte(y)
			case int64:
				b[i] = byte(y)
			}
		}
		return string(b)
	}
	return ""
}

func (p *Path) matNum(ev *evaluator, an *AbsNum) string {
	switch an.Mode {
	case 0:
		return strconv.FormatInt(int64(ev.scalar(an.I).(uint64)), 10)
	case 1:
		f := ev.scalar(an.F).(float64)
		return strconv.FormatFloat(f, 'e', -1, 64)
	}
	return "1e400"
}

func (p *Path) matInput(ev *evaluator, in InputRec) any {
	switch in.Kind {
	case "bool":
		return map[string]any{"k": "bool", "v": ev.scalar(in.Val)}
	case "int":
		return map[string]any{"k": "int", "v": strconv.FormatInt(int64(ev.scalar(in.Val).(uint64)), 10)}
	case "uint":
		return map[string]any{"k": "uint", "v": strconv.FormatUint(ev.scalar(in.Val).(uint64), 10)}
	case "float":
		return map[string]any{"k": "float", "v": floatRepr(ev.scalar(in.Val).(float64))}
	case "choice":
		return map[string]any{"k": "choice", "v": in.Val.(int64)}
	case "string":
		return map[string]any{"k": "string", "v": []byte(p.matStr(ev, in.Val))}
	case "number":
		return map[string]any{"k": "number", "v": p.matNum(ev, in.Val.(*AbsNum))}
	case "json":
		return map[string]any{"k": "json", "v": p.matLazy(ev, in.Val.(*Lazy))}
	}
	panic("matInput " + in.Kind)
}

func (p *Path) matLazy(ev *evaluator, l *Lazy) any {
	if !l.Forced {
		return map[string]any{"t": "null"}
	}
	switch l.Kind {
	case KNull:
		return map[string]any{"t": "null"}
	case KBool:
		return map[string]any{"t": "bool", "v": ev.scalar(l.Leaf)}
	case KFloat:
		return map[string]any{"t": "float", "v": floatRepr(ev.scalar(l.Leaf).(float64))}
	case KInt64:
		return map[string]any{"t": "int64", "v": strconv.FormatInt(int64(ev.scalar(l.Leaf).(uint64)), 10)}
	case KNumber, KNumOOR:
		return map[string]any{"t": "number", "v": p.matNum(ev, l.Leaf.(*AbsNum))}
	case KString:
		return map[string]any{"t": "string", "v": []byte(p.matStr(ev, l.Leaf))}
	case KArray:
		es := make([]any, len(l.Elems))
		for i, e := range l.Elems {
			es[i] = p.matLazy(ev, e)
		}
		return map[string]any{"t": "array", "v": es}
	case KObject:
		es := make([]any, len(l.Elems))
		for i, e := range l.Elems {
			es[i] = p.matLazy(ev, e)
		}
		return map[string]any{"t": "object", "keys": l.Keys, "v": es}
	}
	panic("matLazy")
}
