package sym

import (
	"fmt"
	"os"
	"go/token"
	"go/types"
	"math"
	"unicode/utf8"
	"unsafe"

	"golang.org/x/tools/go/ssa"

	"gosymx/smt"
)

// ---------- term helpers ----------

// term converts a scalar value of static type t into a term.
func (p *Path) term(v Value, t types.Type) *smt.Term {
	switch v := v.(type) {
	case *smt.Term:
		return v
	case bool:
		return p.C.Bool(v)
	case int64:
		w, _ := intWidth(t)
		return p.C.BVS(v, w)
	case uint64:
		w, _ := intWidth(t)
		return p.C.BV(v, w)
	case float64:
		return p.C.FP(v)
	}
	panic(fmt.Sprintf("term: %T (%v)", v, t))
}

// fromTerm converts constant terms back to concrete values.
func fromTerm(t *smt.Term, typ types.Type) Value {
	if !t.IsConst() {
		return t
	}
	switch t.Sort.K {
	case smt.KBool:
		return t.U == 1
	case smt.KFP:
		f, _ := t.FPVal()
		return f
	default:
		if t.Sort.W > 64 {
			return t
		}
		return wrapInt(t.U, typ)
	}
}

func (p *Path) byteTerm(v Value) *smt.Term {
	switch v := v.(type) {
	case *smt.Term:
		return v
	case uint64:
		return p.C.BV(v, 8)
	case int64:
		return p.C.BV(uint64(v), 8)
	}
	panic(fmt.Sprintf("byteTerm: %T", v))
}

// ---------- unop ----------

func (p *Path) unop(fr *frame, instr *ssa.UnOp, x Value) Value {
	switch instr.Op {
	case token.MUL: // load
		return p.load(x, instr.Type())
	case token.ARROW:
		ch, _ := x.(*Chan)
		if ch != nil && ch.Closed {
			z := zero(instr.X.Type().Underlying().(*types.Chan).Elem())
			if instr.CommaOk {
				return Tuple{z, false}
			}
			return z
		}
		p.unsupported("blocking channel receive in %s", fr.fn)
	case token.SUB:
		switch x := x.(type) {
		case int64:
			return wrapInt(uint64(-x), instr.Type())
		case uint64:
			return wrapInt(-x, instr.Type())
		case float64:
			return -x
		case *smt.Term:
			if x.Sort.K == smt.KFP {
				return p.C.FpNeg(x)
			}
			return fromTerm(p.C.BvNeg(x), instr.Type())
		}
	case token.NOT:
		switch x := x.(type) {
		case bool:
			return !x
		case *smt.Term:
			return fromTerm(p.C.Not(x), instr.Type())
		}
	case token.XOR:
		switch x := x.(type) {
		case int64:
			return wrapInt(uint64(^x), instr.Type())
		case uint64:
			return wrapInt(^x, instr.Type())
		case *smt.Term:
			return fromTerm(p.C.BvNot(x), instr.Type())
		}
	}
	panic(fmt.Sprintf("unop %v on %T", instr.Op, x))
}

// SymRef is a pointer to arr[idx] with symbolic in-range idx.
type SymRef struct {
	arr []Value
	idx *smt.Term
}

func (p *Path) load(x Value, t types.Type) Value {
	switch x := x.(type) {
	case *Value:
		if x == nil {
			p.runtimePanic("invalid memory address or nil pointer dereference")
		}
		return copyVal(*x)
	case *SymRef:
		return p.selectFrom(x.arr, x.idx, t)
	}
	panic(fmt.Sprintf("load from %T", x))
}

func (p *Path) storeTo(addr Value, v Value) {
	switch a := addr.(type) {
	case *Value:
		if a == nil {
			p.runtimePanic("invalid memory address or nil pointer dereference")
		}
		p.checkWrite(a)
		store(a, v)
	case *SymRef:
		i := p.concretizeRange(a.idx, 0, int64(len(a.arr)-1))
		p.checkWrite(&a.arr[i])
		store(&a.arr[i], v)
	default:
		panic(fmt.Sprintf("store to %T", addr))
	}
}

// selectFrom builds arr[idx] for symbolic in-range idx: a run-compressed
// ite-chain when the element type is a scalar, a fork over the feasible
// indices otherwise.
func (p *Path) selectFrom(arr []Value, idx *smt.Term, et types.Type) Value {
	scalar := false
	if b, ok := et.Underlying().(*types.Basic); ok {
		scalar = b.Info()&(types.IsBoolean|types.IsInteger|types.IsFloat) != 0
	}
	if scalar && len(arr) > 0 && len(arr) <= 8192 {
		if len(arr) > 8 && os.Getenv("GOSYMX_DEBUG") != "" {
			fmt.Fprintf(os.Stderr, "ite-chain over %d-element table, index vars %v\n%s", len(arr), p.termVars(idx), p.stackString())
		}
		ts := make([]*smt.Term, len(arr))
		for i, e := range arr {
			ts[i] = p.term(e, et)
		}
		res := ts[len(arr)-1]
		for i := len(arr) - 2; i >= 0; i-- {
			if ts[i] == ts[i+1] {
				continue
			}
			res = p.C.Ite(p.C.BvSle(idx, p.C.BVS(int64(i), idx.Sort.W)), ts[i], res)
		}
		return fromTerm(res, et)
	}
	if len(arr) > 32 && os.Getenv("GOSYMX_DEBUG") != "" {
		fmt.Fprintf(os.Stderr, "concretising index into %d-element table of %v\n%s", len(arr), et, p.stackString())
	}
	i := p.concretizeRange(idx, 0, int64(len(arr)-1))
	return copyVal(arr[i])
}

// ---------- binop ----------

func (p *Path) binop(op token.Token, t types.Type, x, y Value) Value {
	// interface / pointer / aggregate equality
	switch op {
	case token.EQL:
		return p.equals(t, x, y)
	case token.NEQ:
		r := p.equals(t, x, y)
		if b, ok := r.(bool); ok {
			return !b
		}
		return p.C.Not(r.(*smt.Term))
	}
	// strings
	if isString(t) {
		switch op {
		case token.ADD:
			return p.strConcat(x, y)
		case token.LSS:
			return p.strLess(x, y, false)
		case token.LEQ:
			return p.strLess(x, y, true)
		case token.GTR:
			return p.strLess(y, x, false)
		case token.GEQ:
			return p.strLess(y, x, true)
		}
	}
	_, xs := x.(*smt.Term)
	_, ys := y.(*smt.Term)
	if !xs && !ys {
		return p.binopConcrete(op, t, x, y)
	}
	if isFloat(t) {
		a, b := p.term(x, t), p.term(y, t)
		switch op {
		case token.ADD:
			return p.C.FpAdd(a, b)
		case token.SUB:
			return p.C.FpSub(a, b)
		case token.MUL:
			return p.C.FpMul(a, b)
		case token.QUO:
			return p.C.FpDiv(a, b)
		case token.LSS:
			return p.C.FpLt(a, b)
		case token.LEQ:
			return p.C.FpLe(a, b)
		case token.GTR:
			return p.C.FpLt(b, a)
		case token.GEQ:
			return p.C.FpLe(b, a)
		}
		panic(fmt.Sprintf("float binop %v", op))
	}
	if isBool(t) {
		a, b := p.term(x, t), p.term(y, t)
		switch op {
		case token.AND, token.LAND:
			return fromTerm(p.C.And(a, b), t)
		case token.OR, token.LOR:
			return fromTerm(p.C.Or(a, b), t)
		}
		panic(fmt.Sprintf("bool binop %v", op))
	}
	w, signed := intWidth(t)
	a := p.term(x, t)
	var b *smt.Term
	if op == token.SHL || op == token.SHR {
		// shift count has its own type; bring it to width w
		switch yv := y.(type) {
		case int64:
			if yv < 0 {
				p.runtimePanic("negative shift amount")
			}
			if yv > 200 {
				yv = 200
			}
			b = p.C.BV(uint64(yv), w)
		case uint64:
			if yv > 200 {
				yv = 200
			}
			b = p.C.BV(yv, w)
		case *smt.Term:
			// saturate: if count >= w then w
			cw := yv.Sort.W
			big := p.C.BvUle(p.C.BV(uint64(w), cw), yv)
			var low *smt.Term
			if cw >= w {
				low = p.C.Extract(yv, w-1, 0)
			} else {
				low = p.C.Zext(yv, w)
			}
			b = p.C.Ite(big, p.C.BV(uint64(w), w), low)
		}
	} else {
		b = p.term(y, t)
	}
	var r *smt.Term
	switch op {
	case token.ADD:
		r = p.C.BvAdd(a, b)
	case token.SUB:
		r = p.C.BvSub(a, b)
	case token.MUL:
		r = p.C.BvMul(a, b)
	case token.QUO, token.REM:
		// division by zero panics
		zeroT := p.C.BV(0, w)
		if p.branch(fromTerm(p.C.Eq(b, zeroT), types.Typ[types.Bool])) {
			p.runtimePanic("integer divide by zero")
		}
		if signed {
			if op == token.QUO {
				r = p.C.BvSDiv(a, b)
			} else {
				r = p.C.BvSRem(a, b)
			}
		} else {
			if op == token.QUO {
				r = p.C.BvUDiv(a, b)
			} else {
				r = p.C.BvURem(a, b)
			}
		}
	case token.AND:
		r = p.C.BvAnd(a, b)
	case token.OR:
		r = p.C.BvOr(a, b)
	case token.XOR:
		r = p.C.BvXor(a, b)
	case token.AND_NOT:
		r = p.C.BvAnd(a, p.C.BvNot(b))
	case token.SHL:
		r = p.C.BvShl(a, b)
	case token.SHR:
		if signed {
			r = p.C.BvAshr(a, b)
		} else {
			r = p.C.BvLshr(a, b)
		}
	case token.LSS:
		if signed {
			return fromTerm(p.C.BvSlt(a, b), types.Typ[types.Bool])
		}
		return fromTerm(p.C.BvUlt(a, b), types.Typ[types.Bool])
	case token.LEQ:
		if signed {
			return fromTerm(p.C.BvSle(a, b), types.Typ[types.Bool])
		}
		return fromTerm(p.C.BvUle(a, b), types.Typ[types.Bool])
	case token.GTR:
		if signed {
			return fromTerm(p.C.BvSlt(b, a), types.Typ[types.Bool])
		}
		return fromTerm(p.C.BvUlt(b, a), types.Typ[types.Bool])
	case token.GEQ:
		if signed {
			return fromTerm(p.C.BvSle(b, a), types.Typ[types.Bool])
		}
		return fromTerm(p.C.BvUle(b, a), types.Typ[types.Bool])
	default:
		panic(fmt.Sprintf("int binop %v", op))
	}
	return fromTerm(r, t)
}

func (p *Path) binopConcrete(op token.Token, t types.Type, x, y Value) Value {
	switch x := x.(type) {
	case bool:
		y := y.(bool)
		switch op {
		case token.AND, token.LAND:
			return x && y
		case token.OR, token.LOR:
			return x || y
		}
	case float64:
		y := y.(float64)
		f32 := t.Underlying().(*types.Basic).Kind() == types.Float32
		r32 := func(f float64) float64 {
			if f32 {
				return float64(float32(f))
			}
			return f
		}
		switch op {
		case token.ADD:
			return r32(x + y)
		case token.SUB:
			return r32(x - y)
		case token.MUL:
			return r32(x * y)
		case token.QUO:
			return r32(x / y)
		case token.LSS:
			return x < y
		case token.LEQ:
			return x <= y
		case token.GTR:
			return x > y
		case token.GEQ:
			return x >= y
		}
	case int64:
		if op == token.SHL || op == token.SHR {
			var n uint64
			switch y := y.(type) {
			case int64:
				if y < 0 {
					p.runtimePanic("negative shift amount")
				}
				n = uint64(y)
			case uint64:
				n = y
			}
			if op == token.SHL {
				if n >= 64 {
					return int64(0)
				}
				return wrapInt(uint64(x)<<n, t)
			}
			if n >= 64 {
				n = 63
			}
			return x >> n
		}
		y := y.(int64)
		switch op {
		case token.ADD:
			return wrapInt(uint64(x+y), t)
		case token.SUB:
			return wrapInt(uint64(x-y), t)
		case token.MUL:
			return wrapInt(uint64(x*y), t)
		case token.QUO:
			if y == 0 {
				p.runtimePanic("integer divide by zero")
			}
			if y == -1 {
				return wrapInt(uint64(-x), t)
			}
			return wrapInt(uint64(x/y), t)
		case token.REM:
			if y == 0 {
				p.runtimePanic("integer divide by zero")
			}
			if y == -1 {
				return int64(0)
			}
			return x % y
		case token.AND:
			return x & y
		case token.OR:
			return x | y
		case token.XOR:
			return x ^ y
		case token.AND_NOT:
			return x &^ y
		case token.LSS:
			return x < y
		case token.LEQ:
			return x <= y
		case token.GTR:
			return x > y
		case token.GEQ:
			return x >= y
		}
	case uint64:
		if op == token.SHL || op == token.SHR {
			var n uint64
			switch y := y.(type) {
			case int64:
				if y < 0 {
					p.runtimePanic("negative shift amount")
				}
				n = uint64(y)
			case uint64:
				n = y
			}
			if n >= 64 {
				return uint64(0)
			}
			if op == token.SHL {
				return wrapInt(x<<n, t)
			}
			return x >> n
		}
		y := y.(uint64)
		switch op {
		case token.ADD:
			return wrapInt(x+y, t)
		case token.SUB:
			return wrapInt(x-y, t)
		case token.MUL:
			return wrapInt(x*y, t)
		case token.QUO:
			if y == 0 {
				p.runtimePanic("integer divide by zero")
			}
			return x / y
		case token.REM:
			if y == 0 {
				p.runtimePanic("integer divide by zero")
			}
			return x % y
		case token.AND:
			return x & y
		case token.OR:
			return x | y
		case token.XOR:
			return x ^ y
		case token.AND_NOT:
			return x &^ y
		case token.LSS:
			return x < y
		case token.LEQ:
			return x <= y
		case token.GTR:
			return x > y
		case token.GEQ:
			return x >= y
		}
	case string:
		y := y.(string)
		switch op {
		case token.ADD:
			return x + y
		case token.LSS:
			return x < y
		case token.LEQ:
			return x <= y
		case token.GTR:
			return x > y
		case token.GEQ:
			return x >= y
		}
	}
	panic(fmt.Sprintf("binopConcrete %v %T %T (%v)", op, x, y, t))
}

// equals implements == for all types; returns bool or *smt.Term.
func (p *Path) equals(t types.Type, x, y Value) Value {
	switch x := x.(type) {
	case bool:
		switch y := y.(type) {
		case bool:
			return x == y
		case *smt.Term:
			return fromTerm(p.C.Eq(p.C.Bool(x), y), types.Typ[types.Bool])
		}
	case int64, uint64:
		if yt, ok := y.(*smt.Term); ok {
			return fromTerm(p.C.Eq(p.term(x, t), yt), types.Typ[types.Bool])
		}
		return asU64(x) == asU64(y)
	case float64:
		switch y := y.(type) {
		case float64:
			return x == y
		case *smt.Term:
			return fromTerm(p.C.FpEq(p.C.FP(x), y), types.Typ[types.Bool])
		}
	case *smt.Term:
		yt := p.term(y, t)
		if x.Sort.K == smt.KFP {
			return fromTerm(p.C.FpEq(x, yt), types.Typ[types.Bool])
		}
		return fromTerm(p.C.Eq(x, yt), types.Typ[types.Bool])
	case string, *SymStr, *AbsNum:
		return p.strEq(x, y)
	case *Value:
		switch y := y.(type) {
		case *Value:
			return x == y
		case *Native:
			return x == nil && nativeIsNil(y)
		}
		return false
	case *SymRef:
		p.unsupported("comparison of symbolic element pointers")
	case *Map:
		ym, _ := y.(*Map)
		return x == ym
	case *Chan:
		yc, _ := y.(*Chan)
		return x == yc
	case *Native:
		switch y := y.(type) {
		case *Native:
			return nativeEqual(x, y)
		case *Value:
			return y == nil && nativeIsNil(x)
		}
		return false
	case Slice:
		// only comparison with nil is legal
		ys := y.(Slice)
		return x.A == nil && ys.A == nil
	case *ssa.Function:
		switch y := y.(type) {
		case *ssa.Function:
			return x == y
		default:
			return x == nil && y == nil
		}
	case *Closure:
		switch y := y.(type) {
		case *ssa.Function:
			return false && y == nil
		case *Closure:
			return x == y
		}
		return false
	case Struct:
		y := y.(Struct)
		st := t.Underlying().(*types.Struct)
		var acc Value = true
		for i := range x {
			if st.Field(i).Name() == "_" {
				continue
			}
			acc = p.and(acc, p.equals(st.Field(i).Type(), x[i], y[i]))
		}
		return acc
	case Array:
		y := y.(Array)
		et := t.Underlying().(*types.Array).Elem()
		var acc Value = true
		for i := range x {
			acc = p.and(acc, p.equals(et, x[i], y[i]))
		}
		return acc
	case Iface:
		yi, ok := y.(Iface)
		if !ok {
			panic(fmt.Sprintf("equals iface vs %T", y))
		}
		x = p.force(x)
		yi = p.force(yi)
		if x.T == nil || yi.T == nil {
			return x.T == nil && yi.T == nil
		}
		if !types.Identical(x.T, yi.T) {
			return false
		}
		if !types.Comparable(x.T) {
			panic(&goPanic{v: Iface{T: p.E.tString, V: "comparing uncomparable type"}, msg: fmt.Sprintf("runtime error: comparing uncomparable type %v", x.T)})
		}
		return p.equals(x.T, x.V, yi.V)
	case complex128:
		return x == y.(complex128)
	}
	panic(fmt.Sprintf("equals: %T %T (%v)", x, y, t))
}

func (p *Path) and(a, b Value) Value {
	if av, ok := a.(bool); ok {
		if !av {
			return false
		}
		return b
	}
	if bv, ok := b.(bool); ok {
		if !bv {
			return false
		}
		return a
	}
	return fromTerm(p.C.And(a.(*smt.Term), b.(*smt.Term)), types.Typ[types.Bool])
}

// ---------- strings ----------

func strLen(s Value) int {
	switch s := s.(type) {
	case string:
		return len(s)
	case *SymStr:
		return len(s.B)
	}
	panic(fmt.Sprintf("strLen: %T", s))
}

func strBytes(s Value) []Value {
	switch s := s.(type) {
	case string:
		b := make([]Value, len(s))
		for i := 0; i < len(s); i++ {
			b[i] = uint64(s[i])
		}
		return b
	case *SymStr:
		return s.B
	}
	panic(fmt.Sprintf("strBytes: %T", s))
}

// mkStr builds a string value from bytes, concrete when possible.
func mkStr(b []Value) Value {
	buf := make([]byte, len(b))
	for i, x := range b {
		switch x := x.(type) {
		case uint64:
			buf[i] = byte(x)
		case int64:
			buf[i] = byte(x)
		case *smt.Term:
			if v, ok := x.BVVal(); ok {
				buf[i] = byte(v)
				continue
			}
			c := make([]Value, len(b))
			for j, y := range b {
				if t, ok := y.(*smt.Term); ok {
					if v, ok := t.BVVal(); ok {
						c[j] = v
						continue
					}
				}
				if iv, ok := y.(int64); ok {
					y = uint64(byte(iv))
				}
				c[j] = y
			}
			return &SymStr{B: c}
		default:
			panic(fmt.Sprintf("mkStr: %T", x))
		}
	}
	return string(buf)
}

func (p *Path) strConcat(x, y Value) Value {
	xs, xok := x.(string)
	ys, yok := y.(string)
	if xok && yok {
		return xs + ys
	}
	if _, ok := x.(*AbsNum); ok {
		p.unsupported("concatenation of abstract number text")
	}
	if _, ok := y.(*AbsNum); ok {
		p.unsupported("concatenation of abstract number text")
	}
	b := append(append([]Value{}, strBytes(x)...), strBytes(y)...)
	return mkStr(b)
}

func (p *Path) strEq(x, y Value) Value {
	xs, xok := x.(string)
	ys, yok := y.(string)
	if xok && yok {
		return xs == ys
	}
	if an, ok := x.(*AbsNum); ok {
		return p.absNumEq(an, y)
	}
	if an, ok := y.(*AbsNum); ok {
		return p.absNumEq(an, x)
	}
	if strLen(x) != strLen(y) {
		return false
	}
	xb, yb := strBytes(x), strBytes(y)
	acc := p.C.True()
	for i := range xb {
		acc = p.C.And(acc, p.C.Eq(p.byteTerm(xb[i]), p.byteTerm(yb[i])))
	}
	return fromTerm(acc, types.Typ[types.Bool])
}

func (p *Path) absNumEq(a *AbsNum, y Value) Value {
	if b, ok := y.(*AbsNum); ok && a == b {
		return true
	}
	p.unsupported("string comparison of abstract number text")
	return nil
}

// strLess: x < y (or <= when orEq) in byte order.
func (p *Path) strLess(x, y Value, orEq bool) Value {
	xs, xok := x.(string)
	ys, yok := y.(string)
	if xok && yok {
		if orEq {
			return xs <= ys
		}
		return xs < ys
	}
	xb, yb := strBytes(x), strBytes(y)
	// lexicographic: fold from the end
	n := len(xb)
	if len(yb) < n {
		n = len(yb)
	}
	var tail *smt.Term
	if len(xb) < len(yb) {
		tail = p.C.True()
	} else if len(xb) == len(yb) {
		tail = p.C.Bool(orEq)
	} else {
		tail = p.C.False()
	}
	for i := n - 1; i >= 0; i-- {
		a, b := p.byteTerm(xb[i]), p.byteTerm(yb[i])
		tail = p.C.Ite(p.C.BvUlt(a, b), p.C.True(), p.C.Ite(p.C.Eq(a, b), tail, p.C.False()))
	}
	return fromTerm(tail, types.Typ[types.Bool])
}

// ---------- conversions ----------

func (p *Path) conv(dst, src types.Type, x Value) Value {
	ud, us := dst.Underlying(), src.Underlying()
	switch us := us.(type) {
	case *types.Pointer:
		if b, ok := ud.(*types.Basic); ok && b.Kind() == types.UnsafePointer {
			return x
		}
		return x
	case *types.Slice:
		// []byte / []rune -> string
		if isString(ud) {
			s := x.(Slice)
			eb := us.Elem().Underlying().(*types.Basic)
			if eb.Kind() == types.Uint8 {
				return mkStr(append([]Value{}, s.A...))
			}
			// []rune
			var out []Value
			for _, r := range s.A {
				rv, ok := r.(int64)
				if !ok {
					p.unsupported("string([]rune) with symbolic rune")
				}
				var buf [4]byte
				n := utf8.EncodeRune(buf[:], rune(rv))
				for _, c := range buf[:n] {
					out = append(out, uint64(c))
				}
			}
			return mkStr(out)
		}
		return x
	case *types.Basic:
		if us.Kind() == types.UnsafePointer {
			return x
		}
		if isString(us) {
			switch udt := ud.(type) {
			case *types.Slice:
				eb := udt.Elem().Underlying().(*types.Basic)
				if eb.Kind() == types.Uint8 {
					if _, ok := x.(*AbsNum); ok {
						p.unsupported("[]byte(abstract number text)")
					}
					b := strBytes(x)
					return Slice{A: append(make([]Value, 0, len(b)), b...)}
				}
				s, ok := x.(string)
				if !ok {
					ss, isSym := x.(*SymStr)
					if !isSym {
						p.unsupported("[]rune(abstract string)")
					}
					// decode rune by rune, forking on each sequence length
					var out []Value
					for i := 0; i < len(ss.B); {
						r, w := p.decodeRuneSym(ss.B[i:])
						out = append(out, r)
						i += w
					}
					return Slice{A: out}
				}
				var out []Value
				for _, r := range s {
					out = append(out, int64(r))
				}
				return Slice{A: out}
			case *types.Basic:
				if isString(udt) {
					return x
				}
			}
		}
		db, ok := ud.(*types.Basic)
		if !ok {
			break
		}
		// integer -> string
		if isInteger(us) && isString(db) {
			switch v := x.(type) {
			case int64:
				return string(rune(v))
			case uint64:
				return string(rune(v))
			}
			if t, ok := x.(*smt.Term); ok {
				r := t
				if r.Sort.W < 32 {
					r = p.C.Zext(r, 32)
				} else if r.Sort.W > 32 {
					r = p.C.Extract(r, 31, 0)
				}
				return mkStr(p.encodeRune(r))
			}
			p.unsupported("string(symbolic rune)")
		}
		if isInteger(us) && isInteger(db) {
			return p.convInt(db, us, x)
		}
		if isInteger(us) && isFloat(db) {
			_, signed := intWidth(us)
			switch v := x.(type) {
			case int64:
				if db.Kind() == types.Float32 {
					return float64(float32(v))
				}
				return float64(v)
			case uint64:
				if db.Kind() == types.Float32 {
					return float64(float32(v))
				}
				return float64(v)
			case *smt.Term:
				if db.Kind() == types.Float32 {
					p.unsupported("symbolic float32")
				}
				if signed {
					return p.C.FpFromSBV(v)
				}
				return p.C.FpFromUBV(v)
			}
		}
		if isFloat(us) && isFloat(db) {
			if db.Kind() == types.Float32 {
				if f, ok := x.(float64); ok {
					return float64(float32(f))
				}
				p.unsupported("symbolic float32")
			}
			return x
		}
		if isFloat(us) && isInteger(db) {
			return p.convFloatToInt(db, x)
		}
		if us.Info()&types.IsComplex != 0 {
			return x
		}
	}
	if types.Identical(ud, us) {
		return x
	}
	panic(fmt.Sprintf("conv %v -> %v (%T)", src, dst, x))
}

func (p *Path) convInt(db, sb *types.Basic, x Value) Value {
	switch v := x.(type) {
	case int64:
		return wrapInt(uint64(v), db)
	case uint64:
		return wrapInt(v, db)
	case *smt.Term:
		dw, _ := intWidth(db)
		sw, ssigned := intWidth(sb)
		if v.Sort.W != sw {
			panic(fmt.Sprintf("convInt: term width %d vs static %d", v.Sort.W, sw))
		}
		var r *smt.Term
		switch {
		case dw == sw:
			r = v
		case dw < sw:
			r = p.C.Extract(v, dw-1, 0)
		case ssigned:
			r = p.C.Sext(v, dw)
		default:
			r = p.C.Zext(v, dw)
		}
		return fromTerm(r, db)
	}
	panic(fmt.Sprintf("convInt %T", x))
}

// convFloatToInt implements the amd64 behaviour of float64 -> integer
// conversion (out-of-range and NaN give the "integer indefinite" value).
func (p *Path) convFloatToInt(db *types.Basic, x Value) Value {
	w, signed := intWidth(db)
	switch v := x.(type) {
	case float64:
		if signed {
			var i int64
			if math.IsNaN(v) || v >= 9223372036854775808.0 || v < -9223372036854775808.0 {
				i = math.MinInt64
				p.note("impl-defined-conversion: float64 out of int64 range")
			} else {
				i = int64(v)
			}
			return wrapInt(uint64(i), db)
		}
		if w == 64 {
			return uint64(v)
		}
		return wrapInt(uint64(int64(v)), db)
	case *smt.Term:
		if !signed && w == 64 {
			p.unsupported("symbolic float64 -> uint64 conversion")
		}
		lo := p.C.FP(-9223372036854775808.0)
		hi := p.C.FP(9223372036854775808.0)
		inRange := p.C.And(p.C.FpLe(lo, v), p.C.FpLt(v, hi))
		r := p.C.Ite(inRange, p.C.FpToSBV(v, 64), p.C.BV(1<<63, 64))
		if w < 64 {
			r = p.C.Extract(r, w-1, 0)
		}
		return fromTerm(r, db)
	}
	panic(fmt.Sprintf("convFloatToInt %T", x))
}

// ---------- slices, indexing ----------

func (p *Path) slice(instr *ssa.Slice, x, lo, hi, max Value) Value {
	limit := 0
	switch x := x.(type) {
	case string, *SymStr:
		limit = strLen(x)
	case Slice:
		limit = cap(x.A)
	case *Value:
		if x != nil {
			limit = len((*x).(Array))
		}
	}
	geti := func(v Value, def int) int {
		if v == nil {
			return def
		}
		return p.concreteIdx(v, limit)
	}
	switch x := x.(type) {
	case string, *SymStr:
		n := strLen(x)
		l := geti(lo, 0)
		h := geti(hi, n)
		if l < 0 || h > n || l > h {
			p.runtimePanic(fmt.Sprintf("slice bounds out of range [%d:%d] with length %d", l, h, n))
		}
		if s, ok := x.(string); ok {
			return s[l:h]
		}
		return mkStr(x.(*SymStr).B[l:h])
	case *AbsNum:
		p.unsupported("slicing abstract number text")
	case Slice:
		c := cap(x.A)
		l := geti(lo, 0)
		h := geti(hi, len(x.A))
		m := geti(max, c)
		if l < 0 || h > c || l > h || m > c || h > m {
			p.runtimePanic(fmt.Sprintf("slice bounds out of range [%d:%d] with capacity %d", l, h, c))
		}
		if x.A == nil {
			return Slice{}
		}
		return Slice{A: x.A[l:h:m]}
	case *Value: // *array
		if x == nil {
			p.runtimePanic("slice of nil array pointer")
		}
		a := (*x).(Array)
		l := geti(lo, 0)
		h := geti(hi, len(a))
		m := geti(max, len(a))
		if l < 0 || h > len(a) || l > h || m > len(a) || h > m {
			p.runtimePanic("slice bounds out of range")
		}
		return Slice{A: []Value(a)[l:h:m]}
	}
	panic(fmt.Sprintf("slice of %T", x))
}

// concreteIdx concretises a (possibly symbolic) slice bound by forking over
// 0..limit (limit+1 stands for every larger or negative value).
func (p *Path) concreteIdx(v Value, limit int) int {
	switch v := v.(type) {
	case int64:
		return int(v)
	case uint64:
		return int(v)
	case *smt.Term:
		v = p.simplify(v)
		if u, ok := v.BVVal(); ok {
			return int(int64(u))
		}
		w := v.Sort.W
		conds := make([]*smt.Term, limit+2)
		for i := 0; i <= limit; i++ {
			conds[i] = p.C.Eq(v, p.C.BVS(int64(i), w))
		}
		conds[limit+1] = p.C.Not(p.C.And(p.C.BvSle(p.C.BVS(0, w), v), p.C.BvSle(v, p.C.BVS(int64(limit), w))))
		d := p.choose(conds)
		if d == limit+1 {
			return -1
		}
		return d
	}
	panic(fmt.Sprintf("concreteIdx %T", v))
}

// checkIndex forks on idx being within [0,n) and panics on the outside
// branch; returns the concrete index or the in-range symbolic term.
func (p *Path) checkIndex(idx Value, n int) (int, *smt.Term) {
	switch v := idx.(type) {
	case int64:
		if v < 0 || int(v) >= n {
			p.runtimePanic(fmt.Sprintf("index out of range [%d] with length %d", v, n))
		}
		return int(v), nil
	case uint64:
		if int(v) >= n || v > 1<<40 {
			p.runtimePanic(fmt.Sprintf("index out of range [%d] with length %d", v, n))
		}
		return int(v), nil
	case *smt.Term:
		v = p.simplify(v)
		if u, ok := v.BVVal(); ok {
			sv := int64(u)
			if v.Sort.W < 64 {
				// narrow index types are unsigned table indices or were sign-extended by Convert
				sv = int64(u)
			}
			if sv < 0 || sv >= int64(n) {
				p.runtimePanic(fmt.Sprintf("index out of range [%d] with length %d", sv, n))
			}
			return int(sv), nil
		}
		w := v.Sort.W
		in := p.C.And(p.C.BvSle(p.C.BVS(0, w), v), p.C.BvSlt(v, p.C.BVS(int64(n), w)))
		if w < 64 {
			// unsigned narrow index types (byte etc.) are used as table indices
			in = p.C.BvUlt(v, p.C.BV(uint64(n), w))
			if n >= 1<<uint(w) {
				in = p.C.True()
			}
		}
		if !p.branch(fromTerm(in, types.Typ[types.Bool])) {
			p.runtimePanic(fmt.Sprintf("index out of range [symbolic] with length %d", n))
		}
		if n > 1 {
			// if the index depends on one input byte only, fork
			// over its feasible values (found by evaluation, no solver call)
			if vals := p.enumValues(v); vals != nil && len(vals) <= 128 {
				conds := make([]*smt.Term, len(vals))
				for i, k := range vals {
					conds[i] = p.C.Eq(v, p.C.BV(k, v.Sort.W))
				}
				d := p.chooseVerified(conds)
				return int(vals[d]), nil
			}
		}
		if w < 64 {
			v = p.C.Zext(v, 64)
		}
		return -1, v
	}
	panic(fmt.Sprintf("checkIndex %T", idx))
}

// concretePtr turns a pointer to a symbolically indexed element into an
// ordinary pointer by forking over the index.
func (p *Path) concretePtr(v Value) *Value {
	switch v := v.(type) {
	case *Value:
		return v
	case *SymRef:
		i := p.concretizeRange(v.idx, 0, int64(len(v.arr)-1))
		return &v.arr[i]
	}
	panic(fmt.Sprintf("concretePtr: %T", v))
}

func (p *Path) indexAddr(x, idx Value) Value {
	var arr []Value
	if sr, ok := x.(*SymRef); ok {
		x = p.concretePtr(sr)
	}
	switch x := x.(type) {
	case Slice:
		arr = x.A
	case *Value:
		if x == nil {
			p.runtimePanic("invalid memory address or nil pointer dereference")
		}
		arr = (*x).(Array)
	default:
		panic(fmt.Sprintf("indexAddr %T", x))
	}
	i, t := p.checkIndex(idx, len(arr))
	if t == nil {
		return &arr[i]
	}
	return &SymRef{arr: arr, idx: t}
}

func (p *Path) index(x, idx Value, xt types.Type) Value {
	switch x := x.(type) {
	case Array:
		i, t := p.checkIndex(idx, len(x))
		if t == nil {
			return copyVal(x[i])
		}
		return p.selectFrom(x, t, xt.Underlying().(*types.Array).Elem())
	case string:
		i, t := p.checkIndex(idx, len(x))
		if t == nil {
			return uint64(x[i])
		}
		return p.selectFrom(strBytes(x), t, types.Typ[types.Uint8])
	case *SymStr:
		i, t := p.checkIndex(idx, len(x.B))
		if t == nil {
			return x.B[i]
		}
		bs := make([]Value, len(x.B))
		for j, b := range x.B {
			bs[j] = p.byteTerm(b)
		}
		return p.selectFrom(bs, t, types.Typ[types.Uint8])
	}
	panic(fmt.Sprintf("index %T", x))
}

// ---------- maps ----------

func (p *Path) mapFind(m *Map, key Value) int {
	if m == nil {
		return -1
	}
	for i, k := range m.Keys {
		eq := p.equals(m.KT, k, key)
		if p.branch(eq) {
			return i
		}
	}
	return -1
}

func (p *Path) lookup(instr *ssa.Lookup, x, key Value) Value {
	switch x := x.(type) {
	case *Map:
		vt := instr.X.Type().Underlying().(*types.Map).Elem()
		i := p.mapFind(x, key)
		var v Value
		if i >= 0 {
			v = copyVal(x.Vals[i])
		} else {
			v = zero(vt)
		}
		if instr.CommaOk {
			return Tuple{v, i >= 0}
		}
		return v
	case string, *SymStr:
		return p.index(x, key, instr.X.Type())
	}
	panic(fmt.Sprintf("lookup in %T", x))
}

func (p *Path) mapUpdate(m *Map, key, val Value) {
	if m == nil {
		p.runtimePanic("assignment to entry in nil map")
	}
	if m.Frozen && p.frozenOn {
		p.frozenWrite("map update")
	}
	i := p.mapFind(m, key)
	if i >= 0 {
		m.Vals[i] = copyVal(val)
		return
	}
	m.Keys = append(m.Keys, copyVal(key))
	m.Vals = append(m.Vals, copyVal(val))
}

func (p *Path) mapDelete(m *Map, key Value) {
	if m == nil {
		return
	}
	if m.Frozen && p.frozenOn {
		p.frozenWrite("map delete")
	}
	i := p.mapFind(m, key)
	if i >= 0 {
		m.Keys = append(m.Keys[:i:i], m.Keys[i+1:]...)
		m.Vals = append(m.Vals[:i:i], m.Vals[i+1:]...)
	}
}

// ---------- range ----------

func (p *Path) rangeIter(x Value) Value {
	switch x := x.(type) {
	case *Map:
		if x == nil {
			return &mapIter{m: &Map{}}
		}
		// iterate over a snapshot of keys
		snap := &Map{Keys: append([]Value{}, x.Keys...), Vals: append([]Value{}, x.Vals...), KT: x.KT}
		return &mapIter{m: snap, n: len(snap.Keys)}
	case string, *SymStr:
		return &strIter{s: x}
	}
	panic(fmt.Sprintf("range over %T", x))
}

func (p *Path) next(it Value, instr *ssa.Next) Value {
	switch it := it.(type) {
	case *mapIter:
		if it.i >= it.n {
			return Tuple{false, nil, nil}
		}
		k, v := it.m.Keys[it.i], it.m.Vals[it.i]
		it.i++
		return Tuple{true, copyVal(k), copyVal(v)}
	case *strIter:
		n := strLen(it.s)
		if it.i >= n {
			return Tuple{false, int64(0), int64(0)}
		}
		if s, ok := it.s.(string); ok {
			r, w := utf8.DecodeRuneInString(s[it.i:])
			i := it.i
			it.i += w
			return Tuple{true, int64(i), int64(r)}
		}
		// symbolic: decode by forking on the leading byte class
		b := it.s.(*SymStr).B
		i := it.i
		r, w := p.decodeRuneSym(b[i:])
		it.i += w
		return Tuple{true, int64(i), r}
	}
	panic(fmt.Sprintf("next on %T", it))
}

// decodeRuneSym decodes one UTF-8 sequence from symbolic bytes; forks on the
// sequence length; returns the rune (int64 or BV32 term) and the width.
func (p *Path) decodeRuneSym(b []Value) (Value, int) {
	b0 := p.byteTerm(b[0])
	C := p.C
	bv8 := func(v uint64) *smt.Term { return C.BV(v, 8) }
	if v, ok := b0.BVVal(); ok && v < 0x80 {
		return int64(v), 1
	}
	isASCII := C.BvUlt(b0, bv8(0x80))
	cont := func(x *smt.Term) *smt.Term { return C.Eq(C.BvAnd(x, bv8(0xC0)), bv8(0x80)) }
	conds := []*smt.Term{isASCII}
	// 2-byte: C2..DF + cont
	var c2, c3, c4 *smt.Term
	if len(b) >= 2 {
		b1 := p.byteTerm(b[1])
		c2 = C.And(C.And(C.BvUle(bv8(0xC2), b0), C.BvUle(b0, bv8(0xDF))), cont(b1))
	} else {
		c2 = C.False()
	}
	if len(b) >= 3 {
		b1, b2 := p.byteTerm(b[1]), p.byteTerm(b[2])
		lead := C.And(C.BvUle(bv8(0xE0), b0), C.BvUle(b0, bv8(0xEF)))
		// E0: b1 in A0..BF ; ED: b1 in 80..9F ; else 80..BF
		b1ok := C.Ite(C.Eq(b0, bv8(0xE0)), C.And(C.BvUle(bv8(0xA0), b1), C.BvUle(b1, bv8(0xBF))),
			C.Ite(C.Eq(b0, bv8(0xED)), C.And(C.BvUle(bv8(0x80), b1), C.BvUle(b1, bv8(0x9F))), cont(b1)))
		c3 = C.And(C.And(lead, b1ok), cont(b2))
	} else {
		c3 = C.False()
	}
	if len(b) >= 4 {
		b1, b2, b3 := p.byteTerm(b[1]), p.byteTerm(b[2]), p.byteTerm(b[3])
		lead := C.And(C.BvUle(bv8(0xF0), b0), C.BvUle(b0, bv8(0xF4)))
		b1ok := C.Ite(C.Eq(b0, bv8(0xF0)), C.And(C.BvUle(bv8(0x90), b1), C.BvUle(b1, bv8(0xBF))),
			C.Ite(C.Eq(b0, bv8(0xF4)), C.And(C.BvUle(bv8(0x80), b1), C.BvUle(b1, bv8(0x8F))), cont(b1)))
		c4 = C.And(C.And(C.And(lead, b1ok), cont(b2)), cont(b3))
	} else {
		c4 = C.False()
	}
	invalid := C.Not(C.Or(C.Or(isASCII, c2), C.Or(c3, c4)))
	conds = append(conds, c2, c3, c4, invalid)
	z := func(x *smt.Term) *smt.Term { return C.Zext(x, 32) }
	sh := func(x *smt.Term, n uint64) *smt.Term { return C.BvShl(x, C.BV(n, 32)) }
	m := func(x Value, mask uint64) *smt.Term { return z(C.BvAnd(p.byteTerm(x), bv8(mask))) }
	switch p.choose(conds) {
	case 0:
		return fromTerm(z(b0), types.Typ[types.Int32]), 1
	case 1:
		return fromTerm(C.BvOr(sh(m(b[0], 0x1F), 6), m(b[1], 0x3F)), types.Typ[types.Int32]), 2
	case 2:
		return fromTerm(C.BvOr(C.BvOr(sh(m(b[0], 0x0F), 12), sh(m(b[1], 0x3F), 6)), m(b[2], 0x3F)), types.Typ[types.Int32]), 3
	case 3:
		return fromTerm(C.BvOr(C.BvOr(sh(m(b[0], 0x07), 18), sh(m(b[1], 0x3F), 12)), C.BvOr(sh(m(b[2], 0x3F), 6), m(b[3], 0x3F))), types.Typ[types.Int32]), 4
	}
	return int64(utf8.RuneError), 1
}

// ---------- type assertions, lazy forcing ----------

func (p *Path) typeAssert(instr *ssa.TypeAssert, x Iface) Value {
	x = p.force(x)
	ok := false
	if x.T != nil {
		if it, isI := instr.AssertedType.Underlying().(*types.Interface); isI {
			ok = types.Implements(x.T, it) || it.Empty()
			if !ok {
				// pointer receivers etc. are covered by Implements on x.T itself
				ok = types.AssertableTo(it, x.T) && types.Implements(x.T, it)
			}
		} else {
			ok = types.Identical(x.T, instr.AssertedType)
		}
	}
	var v Value
	if ok {
		if _, isI := instr.AssertedType.Underlying().(*types.Interface); isI {
			v = x
		} else {
			v = copyVal(x.V)
		}
	} else {
		if !instr.CommaOk {
			msg := fmt.Sprintf("interface conversion: interface is %v, not %v", x.T, instr.AssertedType)
			p.runtimePanic(msg)
		}
		v = zero(instr.AssertedType)
	}
	if instr.CommaOk {
		return Tuple{v, ok}
	}
	return v
}

// ---------- builtins ----------

func (p *Path) callBuiltin(caller *frame, fn *ssa.Builtin, args []Value) Value {
	switch fn.Name() {
	case "append":
		if len(args) == 1 {
			return args[0]
		}
		dst := args[0].(Slice)
		var add []Value
		switch s := args[1].(type) {
		case Slice:
			add = s.A
		case string, *SymStr:
			add = strBytes(s)
		case *AbsNum:
			p.unsupported("append of abstract number text")
		default:
			panic(fmt.Sprintf("append %T", s))
		}
		if len(add) == 0 {
			return dst
		}
		n := len(dst.A)
		if n+len(add) <= cap(dst.A) {
			ext := dst.A[:n+len(add)]
			for i, v := range add {
				p.checkWrite(&ext[n+i])
				ext[n+i] = copyVal(v)
			}
			return Slice{A: ext}
		}
		nc := 2*cap(dst.A) + len(add)
		na := make([]Value, n+len(add), nc)
		for i := range dst.A {
			na[i] = dst.A[i]
		}
		for i, v := range add {
			na[n+i] = copyVal(v)
		}
		// zero the spare capacity lazily: elements beyond len are never read
		return Slice{A: na}
	case "copy":
		dst := args[0].(Slice)
		var src []Value
		switch s := args[1].(type) {
		case Slice:
			src = s.A
		case string, *SymStr:
			src = strBytes(s)
		}
		n := len(dst.A)
		if len(src) < n {
			n = len(src)
		}
		tmp := make([]Value, n)
		for i := 0; i < n; i++ {
			tmp[i] = copyVal(src[i])
		}
		for i := 0; i < n; i++ {
			p.checkWrite(&dst.A[i])
			dst.A[i] = tmp[i]
		}
		return int64(n)
	case "len":
		switch x := args[0].(type) {
		case string, *SymStr:
			return int64(strLen(x))
		case *AbsNum:
			p.unsupported("len of abstract number text")
		case Slice:
			return int64(len(x.A))
		case Array:
			return int64(len(x))
		case *Value:
			return int64(len((*x).(Array)))
		case *Map:
			if x == nil {
				return int64(0)
			}
			return int64(len(x.Keys))
		case *Chan:
			return int64(0)
		}
		panic(fmt.Sprintf("len %T", args[0]))
	case "cap":
		switch x := args[0].(type) {
		case Slice:
			return int64(cap(x.A))
		case Array:
			return int64(len(x))
		case *Value:
			return int64(len((*x).(Array)))
		}
		panic(fmt.Sprintf("cap %T", args[0]))
	case "delete":
		m, _ := args[0].(*Map)
		p.mapDelete(m, args[1])
		return nil
	case "close":
		ch, _ := args[0].(*Chan)
		if ch == nil {
			p.runtimePanic("close of nil channel")
		}
		ch.Closed = true
		return nil
	case "print", "println":
		return nil
	case "recover":
		return p.doRecover(caller)
	case "min", "max":
		res := args[0]
		t := caller.fn.Signature // unused
		_ = t
		for _, a := range args[1:] {
			var lt bool
			switch x := res.(type) {
			case int64:
				lt = a.(int64) < x
			case uint64:
				lt = a.(uint64) < x
			case float64:
				lt = a.(float64) < x
			case string:
				lt = a.(string) < x
			default:
				p.unsupported("min/max on %T", res)
			}
			if (fn.Name() == "min") == lt {
				res = a
			}
		}
		return res
	case "clear":
		switch x := args[0].(type) {
		case *Map:
			if x != nil {
				x.Keys, x.Vals = nil, nil
			}
		}
		return nil
	case "ssa:wrapnilchk":
		recv := args[0]
		if ptr, ok := recv.(*Value); ok && ptr == nil {
			p.runtimePanic(fmt.Sprintf("value method %s.%s called using nil pointer", args[1], args[2]))
		}
		return recv
	}
	p.unsupported("builtin %s", fn.Name())
	return nil
}

func (p *Path) doRecover(caller *frame) Value {
	// caller is the deferred function's frame; its caller is the panicking frame
	if caller != nil && !caller.panicking && caller.caller != nil && caller.caller.panicking {
		pf := caller.caller
		pf.panicking = false
		gp := pf.panicVal
		pf.panicVal = nil
		if i, ok := gp.v.(Iface); ok {
			return i
		}
		return Iface{T: p.E.tString, V: gp.msg}
	}
	return Iface{}
}

// ---------- frozen memory ----------

func (p *Path) checkWrite(a *Value) {
	u := uintptr(unsafe.Pointer(a))
	w := p.W
	if w != nil && len(w.initRanges) > 0 && inRanges(w.initRanges, u) {
		p.dirty = true
		if p.frozenOn {
			p.frozenWrite("store to package-level memory")
		}
		return
	}
	if p.frozenOn && len(p.frozen) > 0 && inRanges(p.frozen, u) {
		p.frozenWrite("store to frozen object")
	}
}

func inRanges(rs []frozenRange, u uintptr) bool {
	lo, hi := 0, len(rs)
	for lo < hi {
		m := (lo + hi) / 2
		if rs[m].hi < u {
			lo = m + 1
		} else {
			hi = m
		}
	}
	return lo < len(rs) && rs[lo].lo <= u && u <= rs[lo].hi
}

func (p *Path) frozenWrite(what string) {
	if p.frozenHit == "" {
		p.frozenHit = what
	}
}
