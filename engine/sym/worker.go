package sym

import (
	"fmt"
	"go/types"
	"os"
	"runtime/debug"
	"sort"
	"strings"
	"sync"
	"sync/atomic"
	"time"
	"unsafe"

	"golang.org/x/tools/go/packages"
	"golang.org/x/tools/go/ssa"
	"golang.org/x/tools/go/ssa/ssautil"

	"gosymx/smt"
)

// Load builds the SSA program for the harness module (and, through its
// replace directive, the repository's current working tree).
func Load(harnessDir string, tags string) (*Engine, error) {
	cfg := &packages.Config{Mode: packages.LoadAllSyntax, Dir: harnessDir}
	if tags != "" {
		cfg.BuildFlags = []string{"-tags", tags}
	}
	cfg.Env = append(os.Environ(), "GOFLAGS=-mod=mod", "GOPROXY=off", "GOSUMDB=off", "GOTOOLCHAIN=local")
	pkgs, err := packages.Load(cfg, ".")
	if err != nil {
		return nil, err
	}
	if n := packages.PrintErrors(pkgs); n > 0 {
		return nil, fmt.Errorf("%d package load errors", n)
	}
	prog, spkgs := ssautil.AllPackages(pkgs, ssa.InstantiateGenerics)
	prog.Build()
	e := &Engine{Prog: prog, Harness: spkgs[0], fnInfo: map[*ssa.Function]*fnInfo{}, MaxSteps: 2_000_000}
	e.NDPkg = prog.ImportedPackage(ndPath)
	e.tAny = types.NewInterfaceType(nil, nil).Complete()
	e.tFloat64 = types.Typ[types.Float64]
	e.tInt64 = types.Typ[types.Int64]
	e.tString = types.Typ[types.String]
	e.tBool = types.Typ[types.Bool]
	e.tSliceAny = types.NewSlice(e.tAny)
	e.tMapAny = types.NewMap(e.tString, e.tAny)
	if jp := prog.ImportedPackage("encoding/json"); jp != nil {
		e.tJSONNumber = jp.Type("Number").Type()
	}
	e.InitPkgs = map[string]bool{}
	for _, p := range prog.AllPackages() {
		pp := p.Pkg.Path()
		if strings.HasPrefix(pp, "github.com/theory/sqljson") || strings.HasPrefix(pp, "harness") {
			e.InitPkgs[pp] = true
		}
	}
	for _, pp := range []string{"context", "strconv", "unicode/utf8", "unicode/utf16", "math", "math/bits", "sort", "slices", "maps", "cmp", "strings", "unicode"} {
		e.InitPkgs[pp] = true
	}
	return e, nil
}

// RepoFunction reports whether fn belongs to the code under test.
func RepoFunction(fn *ssa.Function) bool {
	if fn.Pkg == nil {
		if fn.Origin() != nil && fn.Origin().Pkg != nil {
			return strings.HasPrefix(fn.Origin().Pkg.Pkg.Path(), "github.com/theory/sqljson")
		}
		return false
	}
	return strings.HasPrefix(fn.Pkg.Pkg.Path(), "github.com/theory/sqljson")
}

// Worker owns a solver and the initialised package-level state.
type Worker struct {
	E          *Engine
	S          *smt.Solver
	globals    map[*ssa.Global]*Value
	initRanges []frozenRange
	initMaps   []*Map
	initErr    string
}

func (e *Engine) NewWorker(timeoutMS int, portfolio bool) *Worker {
	w := &Worker{E: e, S: smt.NewSolver(timeoutMS, portfolio)}
	w.initGlobals()
	return w
}

func (w *Worker) initGlobals() {
	w.globals = map[*ssa.Global]*Value{}
	for _, pkg := range w.E.Prog.AllPackages() {
		for _, m := range pkg.Members {
			if g, ok := m.(*ssa.Global); ok {
				cell := new(Value)
				*cell = zero(deref(g.Type()))
				w.globals[g] = cell
			}
		}
	}
	// seed natively-held std globals
	if tp := w.E.Prog.ImportedPackage("time"); tp != nil {
		if g, ok := tp.Members["UTC"].(*ssa.Global); ok {
			*w.globals[g] = &Native{V: time.UTC}
		}
		if g, ok := tp.Members["Local"].(*ssa.Global); ok {
			*w.globals[g] = &Native{V: time.UTC}
		}
	}
	// run the harness package initialiser (transitively, allow-listed)
	p := w.newPath(nil)
	w.initRanges = nil
	func() {
		defer func() {
			if r := recover(); r != nil {
				w.initErr = fmt.Sprintf("package init failed: %v\n%s\n%s", r, p.errStack, debug.Stack())
			}
		}()
		p.callSSA(nil, w.E.Harness.Func("init"), nil, nil)
	}()
	// everything reachable from globals is init-time memory
	var roots []Value
	for _, c := range w.globals {
		roots = append(roots, c)
	}
	w.initRanges, w.initMaps = collectRanges(roots)
}

func (w *Worker) newPath(prefix []int32) *Path {
	p := &Path{E: w.E, W: w, C: smt.NewCtx(), S: w.S, prefix: prefix, covers: map[string]bool{}, bypass: map[*ssa.Function]int{}}
	p.S.Begin(p.C)
	return p
}

// collectRanges walks the object graph and returns the sorted, merged
// address ranges of every cell / backing array, plus all maps.
func collectRanges(roots []Value) ([]frozenRange, []*Map) {
	var rs []frozenRange
	var maps []*Map
	seen := map[uintptr]bool{}
	seenMap := map[*Map]bool{}
	add := func(a []Value) bool {
		if cap(a) == 0 {
			return false
		}
		a = a[:cap(a)]
		lo := uintptr(unsafe.Pointer(&a[0]))
		if seen[lo] {
			return false
		}
		seen[lo] = true
		rs = append(rs, frozenRange{lo, uintptr(unsafe.Pointer(&a[len(a)-1]))})
		return true
	}
	var walk func(v Value)
	walk = func(v Value) {
		switch v := v.(type) {
		case *Value:
			if v == nil {
				return
			}
			u := uintptr(unsafe.Pointer(v))
			if seen[u] {
				return
			}
			seen[u] = true
			rs = append(rs, frozenRange{u, u})
			walk(*v)
		case Struct:
			if add(v) {
				for _, e := range v {
					walk(e)
				}
			}
		case Array:
			if add(v) {
				for _, e := range v {
					walk(e)
				}
			}
		case Slice:
			if add(v.A) {
				for _, e := range v.A[:cap(v.A)] {
					walk(e)
				}
			}
		case *Map:
			if v == nil || seenMap[v] {
				return
			}
			seenMap[v] = true
			maps = append(maps, v)
			for i := range v.Keys {
				walk(v.Keys[i])
				walk(v.Vals[i])
			}
		case Iface:
			if v.L != nil {
				if v.L.Forced {
					walk(v.L.Val)
				}
				return
			}
			walk(v.V)
		case *Closure:
			for _, e := range v.Env {
				walk(e)
			}
		case Tuple:
			for _, e := range v {
				walk(e)
			}
		}
	}
	for _, r := range roots {
		walk(r)
	}
	sort.Slice(rs, func(i, j int) bool { return rs[i].lo < rs[j].lo })
	// merge overlapping (struct backing arrays contain their cells)
	var out []frozenRange
	for _, r := range rs {
		if n := len(out); n > 0 && r.lo <= out[n-1].hi {
			if r.hi > out[n-1].hi {
				out[n-1].hi = r.hi
			}
			continue
		}
		out = append(out, r)
	}
	return out, maps
}

func (p *Path) freeze(roots []Value) {
	rs, maps := collectRanges(roots)
	p.frozen = rs
	for _, m := range maps {
		m.Frozen = true
	}
	for _, m := range p.W.initMaps {
		m.Frozen = true
	}
	p.frozenOn = true
	p.frozenHit = ""
}

// ---- exploration ----

type PathResult struct {
	End        string // done, assume, violation, budget, unsupported, unknown, panic
	Msg        string
	Steps      int
	Decisions  int
	Violations []*Violation
	Children   [][]int32
	Covers     map[string]bool
	Notes      []string
	UnknownBr  int
	UnknownAs  int
	Asserts    int
	Funcs      map[*ssa.Function]int
	Sample     string
}

// fallback: the engine cannot continue this path (an operation it does not
// model). So that code behind such an operation is not silently skipped, a
// sample of these paths is handed to the native build: inputs satisfying the
// path condition so far are materialised and the harness is replayed on them
// (concolic fallback; a sample, not a decision, and reported as such).
func (w *Worker) fallback(p *Path, res *PathResult, msg string) {
	n := atomic.AddInt64(&w.E.fallbackSeen, 1)
	if !(n <= 16 || n&(n-1) == 0 || n%509 == 0) {
		return
	}
	if atomic.AddInt64(&w.E.fallbackTaken, 1) > 64 {
		return
	}
	defer func() { recover() }()
	vec, ok := p.materialise(nil)
	if ok {
		res.Violations = append(res.Violations, &Violation{Label: FallbackLabel, Detail: msg, Vector: vec, Log: append([]int32(nil), p.log...)})
	}
}

// FallbackLabel marks an input vector recorded for native replay because the
// engine could not continue the path.
const FallbackLabel = "fallback:unsupported"

// RunPath executes the harness entry following prefix.
func (w *Worker) RunPath(entry *ssa.Function, prefix []int32, collectFuncs bool) (res PathResult) {
	if w.initErr != "" {
		return PathResult{End: "unsupported", Msg: w.initErr}
	}
	p := w.newPath(prefix)
	if collectFuncs {
		p.funcs = map[*ssa.Function]int{}
	}
	defer func() {
		res.Steps = p.steps
		res.Decisions = len(p.log)
		res.Violations = p.violations
		res.Children = p.pendingChildren
		res.Covers = p.covers
		res.Notes = p.notes
		res.UnknownBr = p.unknownBranches
		res.UnknownAs = p.unknownAsserts
		res.Asserts = p.asserts
		res.Funcs = p.funcs
		if p.dirty {
			// init-time memory was written: rebuild the worker state
			w.initGlobals()
		}
		if r := recover(); r != nil {
			switch r := r.(type) {
			case abort:
				res.End, res.Msg = r.kind, r.msg
				if r.kind == "unsupported" && p.errStack != "" {
					res.Msg += "\n" + p.errStack
				}
				if r.kind == "unsupported" {
					w.fallback(p, &res, r.msg)
				}
			case *goPanic:
				// a panic escaped the harness: built-in violation
				res.End, res.Msg = "panic", r.msg+" @"+r.at
				lab := "panic"
				if r.at != "" {
					lab = "panic@" + r.at
				}
				vec, ok := p.materialise(nil)
				if ok {
					res.Violations = append(res.Violations, &Violation{Label: lab, Detail: r.msg, Vector: vec, Log: append([]int32(nil), p.log...)})
				} else {
					res.End, res.Msg = "unknown", "panic escaped but no model: "+r.msg
				}
			default:
				res.End = "engine-error"
				res.Msg = fmt.Sprintf("%v\n%s\n%s", r, p.errStack, debug.Stack())
			}
			return
		}
		res.End = "done"
	}()
	p.callSSA(nil, entry, nil, nil)
	return
}

type Summary struct {
	Paths       int
	Ends        map[string]int
	Steps       int64
	Decisions   int64
	MaxDecision int
	Violations  []*Violation
	Fallbacks   []*Violation // inputs for native replay of paths the engine could not continue
	Covers      map[string]int
	Notes       map[string]int
	Msgs        map[string]int // unsupported / unknown / budget messages
	UnknownBr   int
	UnknownAs   int
	Asserts     int
	Funcs       map[string]int
	Solver      smt.Stats
	Samples     []string
	Truncated   bool
	Wall        time.Duration
	Pending     [][]int32 // decision prefixes not yet explored when the deadline struck (resume with ExploreOpts.Resume)
}

// Merge adds the results of a continued exploration to s.
func (s *Summary) Merge(o *Summary) {
	s.Paths += o.Paths
	s.Steps += o.Steps
	s.Decisions += o.Decisions
	if o.MaxDecision > s.MaxDecision {
		s.MaxDecision = o.MaxDecision
	}
	s.Violations = append(s.Violations, o.Violations...)
	s.Fallbacks = append(s.Fallbacks, o.Fallbacks...)
	for k, v := range o.Ends {
		s.Ends[k] += v
	}
	for k, v := range o.Covers {
		s.Covers[k] += v
	}
	for k, v := range o.Notes {
		s.Notes[k] += v
	}
	for k, v := range o.Msgs {
		s.Msgs[k] += v
	}
	for k, v := range o.Funcs {
		s.Funcs[k] += v
	}
	s.UnknownBr += o.UnknownBr
	s.UnknownAs += o.UnknownAs
	s.Asserts += o.Asserts
	s.Solver.Add(o.Solver)
	s.Wall += o.Wall
	s.Truncated = o.Truncated
	s.Pending = o.Pending
}

type ExploreOpts struct {
	Workers    int
	TimeoutMS  int
	Portfolio  bool
	MaxPaths   int
	Deadline   time.Time
	MaxViolPer int // stop collecting after this many violations per label
	Seed       int64
	Verbose    bool
	Resume     [][]int32 // continue from these pending decision prefixes instead of from the root
}

// Explore runs the harness function over all feasible paths.
func (e *Engine) Explore(entryName string, o ExploreOpts) (*Summary, error) {
	entry := e.Harness.Func(entryName)
	if entry == nil {
		return nil, fmt.Errorf("no harness function %s", entryName)
	}
	if o.Workers <= 0 {
		o.Workers = 1
	}
	sum := &Summary{Ends: map[string]int{}, Covers: map[string]int{}, Notes: map[string]int{}, Msgs: map[string]int{}, Funcs: map[string]int{}}
	atomic.StoreInt64(&e.fallbackSeen, 0)
	atomic.StoreInt64(&e.fallbackTaken, 0)
	var mu sync.Mutex
	cond := sync.NewCond(&mu)
	work := [][]int32{nil}
	if o.Resume != nil {
		work = append([][]int32(nil), o.Resume...)
	}
	stop := false
	active := 0
	perLabel := map[string]int{}
	t0 := time.Now()
	var wg sync.WaitGroup
	for i := 0; i < o.Workers; i++ {
		wg.Add(1)
		go func(id int) {
			defer wg.Done()
			w := e.NewWorker(o.TimeoutMS, o.Portfolio)
			defer w.S.Close()
			for {
				mu.Lock()
				for len(work) == 0 && active > 0 && !stop {
					cond.Wait()
				}
				if len(work) == 0 || stop {
					mu.Unlock()
					cond.Broadcast()
					break
				}
				if (o.MaxPaths > 0 && sum.Paths >= o.MaxPaths) || (!o.Deadline.IsZero() && time.Now().After(o.Deadline)) {
					sum.Truncated = true
					stop = true // what is left in work stays pending
					mu.Unlock()
					cond.Broadcast()
					break
				}
				pre := work[len(work)-1]
				work = work[:len(work)-1]
				active++
				first := sum.Paths < 64
				sum.Paths++
				mu.Unlock()

				r := w.RunPath(entry, pre, first)

				mu.Lock()
				active--
				sum.Ends[r.End]++
				sum.Steps += int64(r.Steps)
				sum.Decisions += int64(r.Decisions)
				if r.Decisions > sum.MaxDecision {
					sum.MaxDecision = r.Decisions
				}
				for _, v := range r.Violations {
					if v.Label == FallbackLabel {
						sum.Fallbacks = append(sum.Fallbacks, v)
						continue
					}
					if o.MaxViolPer == 0 || perLabel[v.Label] < o.MaxViolPer {
						perLabel[v.Label]++
						sum.Violations = append(sum.Violations, v)
					}
				}
				for c := range r.Covers {
					sum.Covers[c]++
				}
				for _, n := range r.Notes {
					sum.Notes[n]++
				}
				if r.End != "done" && r.End != "assume" && r.End != "violation" {
					m := r.Msg
					if len(m) > 300 && r.End != "engine-error" && !strings.Contains(m, "goroutine") {
						m = m[:300]
					}
					sum.Msgs[r.End+": "+m]++
				}
				sum.UnknownBr += r.UnknownBr
				sum.UnknownAs += r.UnknownAs
				sum.Asserts += r.Asserts
				for f, n := range r.Funcs {
					sum.Funcs[f.String()] += n
				}
				work = append(work, r.Children...)
				mu.Unlock()
				cond.Broadcast()
			}
			mu.Lock()
			sum.Solver.Add(w.S.Stats)
			mu.Unlock()
		}(i)
	}
	wg.Wait()
	sum.Wall = time.Since(t0)
	if sum.Truncated {
		sum.Pending = work
	}
	return sum, nil
}
