#!/bin/sh
# Builds the verification engine from files on disk only (offline).
set -e
export GOFLAGS=-mod=mod GOPROXY=off GOSUMDB=off GOTOOLCHAIN=local
cd "$(dirname "$0")"
mkdir -p bin evidence replays
(cd engine && go build -o ../bin/check ./cmd/check && go build -o ../bin/run ./cmd/run)
cp /repo/go.sum harness/go.sum
(cd harness && go vet -tags verif ./... >/dev/null 2>&1 || true; go build -tags verif ./...)
echo setup ok
