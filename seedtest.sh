#!/bin/bash
# usage: seedtest.sh <seed-id> <agent-worktree> <property> [checks to run...]
# Verifies a seeded change independently (scratch worktree), stores it under
# /verif/seeded/<seed-id>/, then runs the given checks against /repo with the
# change applied and undoes it.
set -u
export GOFLAGS=-mod=mod GOPROXY=off GOSUMDB=off GOTOOLCHAIN=local
id=$1; wt=$2; prop=$3; shift 3
dst=/verif/seeded/$id
mkdir -p $dst
if [ -d "$wt" ]; then
  (cd $wt && git diff -- path ':!path/zz_demo_test.go' > $dst/patch.diff)
  cp $wt/path/zz_demo_test.go $dst/demo_test.go
  cp $wt/SEED_notes.md $dst/agent_notes.md 2>/dev/null
fi
sv=/tmp/sv_$id
git -C /repo worktree remove --force $sv 2>/dev/null
git -C /repo worktree add -q $sv HEAD || exit 2
res="{}"
(cd $sv && git apply $dst/patch.diff) || { echo "patch does not apply"; exit 2; }
(cd $sv && go build ./... ) > $dst/verify.log 2>&1 && build=ok || build=FAIL
(cd $sv && go test -vet=off -count=1 ./... ) >> $dst/verify.log 2>&1 && suite=pass || suite=FAIL
cp $dst/demo_test.go $sv/path/zz_demo_test.go
names=$(grep -h '^func Test' $dst/demo_test.go | sed 's/func \(Test[A-Za-z0-9_]*\).*/\1/' | paste -sd'|')
(cd $sv && go test -vet=off -count=1 -run "^($names)\$" ./path/ ) >> $dst/verify.log 2>&1 && demo_with=pass || demo_with=fail
(cd $sv && git apply -R $dst/patch.diff)
(cd $sv && go test -vet=off -count=1 -run "^($names)\$" ./path/ ) >> $dst/verify.log 2>&1 && demo_without=pass || demo_without=fail
git -C /repo worktree remove --force $sv
echo "seed $id: build=$build suite=$suite demo_with_change=$demo_with demo_without_change=$demo_without"
# run checks against /repo with the change applied
git -C /repo apply $dst/patch.diff || exit 2
caught=""
for c in "$@"; do
  out=$(cd /verif && VERIF_BUDGET_S=${SEED_BUDGET:-270} bin/check $c 2>&1)
  rc=$?
  v=$(echo "$out" | grep -c "^VIOLATION")
  echo "$out" | grep "^VIOLATION\|harness=" | head -6 > $dst/check_$c.txt
  echo "  check $c: exit=$rc violations=$v $(echo "$out" | grep 'harness=' | head -2 | sed 's/detail=.*//' | tr '\n' ' ')"
  [ $rc -eq 1 ] && caught="$caught $c"
done
git -C /repo checkout -- .
git -C /repo status --short | head -3
cat > $dst/meta.json <<META
{"seed": "$id", "property": "$prop", "build": "$build", "existing_suite": "$suite", "demo_with_change": "$demo_with", "demo_without_change": "$demo_without", "checks_run": "$*", "caught_by": "$(echo $caught)"}
META
