#!/bin/bash
# Runs every registered check (quick tier by default) and prints one line each.
cd "$(dirname "$0")"
tier=${1:-quick}
for p in C01 C02 C03 C04 C05 C06 C07 C08 C09 C10 C11 C12 C13 C14 C15 C16 C17 C18 C19 C20; do
  t0=$(date +%s)
  ./check.sh $p $tier > /tmp/sweep_$p.log 2>&1
  rc=$?
  echo "$p exit=$rc wall=$(( $(date +%s) - t0 ))s truncated=$(grep -c 'truncated=true' /tmp/sweep_$p.log) known=$(grep -c '^KNOWN-FINDING' /tmp/sweep_$p.log) viol=$(grep -c '^VIOLATION' /tmp/sweep_$p.log) unconfirmed=$(grep -c '^UNCONFIRMED' /tmp/sweep_$p.log)"
done
