#!/usr/bin/env python3
"""Regenerates MANIFEST.json from the table below (kept in one place so that
the manifest stays valid while checks are added)."""
import json

BASE_OFF = open('/root/.vp/BASELINE.json').read()
baseline_cmd = json.loads(BASE_OFF)["cmd"]

TECH = "bounded symbolic execution of the real Go code (own go/ssa -> SMT-LIB executor), z3 4.8.12 + z3 5.1 + cvc5 portfolio; counterexamples replayed natively"

# id -> (text, note, design_ref)
CHECKS = {
 "C11": ("Complete Kleene truth tables of && || ! `is unknown` exists (incl. the non-suppressible error as an operand outcome), commutativity, double negation, De Morgan, at top level, inside a filter and through Match, lax and strict: every path of the real exec code over symbolic operand items is decided by the solver; holds for all operand values within the bound.",
         "Operands are `$v == 1` with $v any null/bool/finite float64/string(<=1 byte) item, or a missing variable; connective nesting depth 1 (De Morgan: 2). Error messages opaque. Known finding listed for `is unknown` swallowing the unknown-variable error.", "6 C11"),
 "C13": ("For `$a op $b` (5 operators), unary +/- over sequences, operand-singleton rule and the commutativity/negation identities, every path of execMathOp/executeIntegerMath/executeFloatMath etc. is executed with unconstrained symbolic operands in each of int64, float64, json.Number(int), json.Number(float); integer results are compared with exact 65/128-bit arithmetic in the solver, float results with SMT IEEE-754 terms. unsat = holds for every operand value.",
         "Full 64-bit operands for + - / % and unary minus. For `*` and for the |remainder|<|divisor| bound the full-width *proof* is beyond all three solvers (60 s): counterexample search is full width, queries that stay unknown are counted in the evidence as undecided. math.Mod is a contract stub (sign, magnitude, finiteness). Out-of-float64-range json.Number excluded here (C05).", "6 C13"),
}

NA = {}

def main():
    props = [json.loads(l) for l in open('/verif/properties.jsonl')]
    checks = []
    na = []
    for p in props:
        pid = p["id"]
        if pid in CHECKS:
            text, note, ref = CHECKS[pid]
            checks.append({
                "property_id": pid,
                "quick_cmd": f"./check.sh {pid} quick",
                "thorough_cmd": f"./check.sh {pid} thorough",
                "evidence_file": f"/verif/evidence/{pid}.json",
                "replay_cmd_template": "cd /verif/harness && echo {path} > /tmp/gosymx-one.txt && GOFLAGS=-mod=mod GOPROXY=off go test -tags verif -vet=off -count=1 -v -run '^TestReplay$' . -args -vectors=/tmp/gosymx-one.txt",
                "engine": "gosymx",
                "level_claimed": {"category": "model_checking", "text": text, "design_ref": "DESIGN.md section " + ref},
                "level_note": note,
                "technique": TECH,
            })
        else:
            na.append({"property_id": pid, "reason": NA.get(pid, "check not built yet in this session (engine stage pending); not claimed")})
    m = {
        "version": 1,
        "setup_cmd": "./setup.sh",
        "hooks": {
            "guard": "verif",
            "enable": "no hook lives in /repo: the harness module (/verif/harness, files tagged //go:build verif) imports the repository through `replace github.com/theory/sqljson => /repo` and drives exported API only; the engine re-lowers /repo's working tree to SSA on every run",
            "baseline_off_cmd": baseline_cmd,
            "source_commits": [],
            "add_only": True,
        },
        "engines": [{"name": "gosymx", "path": "/verif/engine", "serves_properties": sorted(CHECKS), "kind_free_text": "symbolic executor for Go SSA with SMT back ends (bounded model checking of the real code)"}],
        "checks": checks,
        "not_applicable": na,
        "notes": "Every result reads: holds for all values within the stated bounds; outside the bounds nothing is claimed. See DESIGN.md.",
    }
    json.dump(m, open('/verif/MANIFEST.json', 'w'), indent=1)

main()
