#!/usr/bin/env python3
"""Regenerates MANIFEST.json from the table below (kept in one place so that
the manifest stays valid while checks are added)."""
import json

BASE_OFF = open('/root/.vp/BASELINE.json').read()
baseline_cmd = json.loads(BASE_OFF)["cmd"]

TECH = "bounded symbolic execution of the real Go code (own go/ssa -> SMT-LIB executor), z3 4.8.12 + z3 5.1 + cvc5 portfolio; counterexamples replayed natively"

# id -> (text, note, design_ref)
CHECKS = {
 "C11": ("Complete Kleene truth tables of && || ! `is unknown` exists (incl. the non-suppressible error as an operand outcome), commutativity, double negation, De Morgan, at top level, inside a filter and through Match, lax and strict: every path of the real exec code over symbolic operand items is decided by the solver; holds for all operand values within the bound.",
         "Operands are `$v == 1` with $v any null/bool/finite float64/string(<=1 byte) item, or a missing variable; connective nesting depth 1 (De Morgan: 2). Error messages opaque. Known finding listed for `is unknown` swallowing the unknown-variable error.", "6 C11"),
 "C13": ("For `$a op $b` (5 operators), unary +/- over sequences, operand-singleton rule and the commutativity/negation identities, every path of execMathOp/executeIntegerMath/executeFloatMath etc. is executed with unconstrained symbolic operands in each of int64, float64, json.Number(int), json.Number(float); integer results are compared with exact 65/128-bit arithmetic in the solver, float results with SMT IEEE-754 terms. unsat = holds for every operand value.",
         "Full 64-bit operands for + - / % and unary minus. For `*` and for the |remainder|<|divisor| bound the full-width *proof* is beyond all three solvers (60 s): counterexample search is full width, queries that stay unknown are counted in the evidence as undecided. math.Mod is a contract stub (sign, magnitude, finiteness). Out-of-float64-range json.Number excluded here (C05).", "6 C13"),
}

CHECKS.update({
 "C07": ("Every accessor/filter chain of up to 2 (thorough: 3) steps from {.a .b .* [*] [0] [1] [last] [0 to 1] [0,1] .** ?(@.a == 1) ?(exists(@.a)) ?(@[*] > 0)} is executed in lax and in strict mode by the real exec code on every document shape within the bound (kinds forced lazily, leaves symbolic), and compared with a reference walk written from the documented rules: lax never errs; strict raises the suppressible class exactly when the walk meets a structural mismatch, at whatever array or subscript-list position; items agree in both modes.",
         "Documents: depth <= 2, width <= 2, keys {a,b}, leaves null / finite float64 (thorough: depth 3, strings). Subscripts directly below .** in strict mode are excluded (the property speaks of member accessors only; the port raises where PostgreSQL skips). The reference evaluator (harness/ref.go) is part of the trusted base.", "6 C07"),
 "C12": ("The six comparison operators, starts with, and the lax/strict sequence rules are executed by the real compareItems/compareNumeric/executePredicate code on symbolic pairs and triples of items of every kind and numeric representation (int64, float64, json.Number int/float, strings as symbolic bytes); results are compared with an exact order computed in the solver (int64 vs float64 by floor/fraction case split, no rounding), and duality, union, negation, trichotomy and transitivity are checked as relations between executions.",
         "Strings <= 2 bytes (thorough 4); arrays of <= 2 items per side for the sequence rules; transitivity triples over float64/int64/string in quick, plus json.Number in thorough. like_regex (flag translation, matching) is not decided here: regexp is stdlib (see C04 for flags). Datetime ordering is C17.", "6 C12"),
 "C14": ("Arrays of every length 0..3 (thorough 5) with lazily shaped elements (JSON null included), a non-array document, and subscript forms [$i] [$i to $j] [$i,$j] [last] [$i to last] [last - 1 to $j] [0, $i to $j] plus nested subscripts, with every bound an unconstrained number (int64 / float64; thorough also json.Number): items and error class are compared with slice arithmetic in the reference evaluator for both modes.",
         "Known finding listed: an element that is JSON null is dropped (pinned by the repository's own TestExecArrayIndex/skip_nil, so not repaired); every other divergence is still reported under a different label.", "6 C14"),
 "C15": ("`.*`, `[*]`, `.**`, `.**{k}`, `.**{a to b}`, `.**{last}` and member/wildcard accessors after `.**` are executed on every JSON tree shape within the bound (empty arrays and objects included) and compared, as multisets where object member order is open and in pre-order otherwise, with an explicit tree walk; level bounds are also symbolic (ast.NewAny on unconstrained ints in -1..2^32), and .** == .**{0 to last}, .**{1}.**{1} == .**{2} are checked as relations between executions.",
         "Trees: depth <= 2, width <= 2, keys {a,b} (thorough depth 3). Object member order is left open (multiset comparison).", "6 C15"),
})

NA = {}

def main():
    props = [json.loads(l) for l in open('/verif/properties.jsonl')]
    checks = []
    na = []
    for p in props:
        pid = p["id"]
        if pid in CHECKS:
            text, note, ref = CHECKS[pid]
            checks.append({
                "property_id": pid,
                "quick_cmd": f"./check.sh {pid} quick",
                "thorough_cmd": f"./check.sh {pid} thorough",
                "evidence_file": f"/verif/evidence/{pid}.json",
                "replay_cmd_template": "cd /verif/harness && echo {path} > /tmp/gosymx-one.txt && GOFLAGS=-mod=mod GOPROXY=off go test -tags verif -vet=off -count=1 -v -run '^TestReplay$' . -args -vectors=/tmp/gosymx-one.txt",
                "engine": "gosymx",
                "level_claimed": {"category": "model_checking", "text": text, "design_ref": "DESIGN.md section " + ref},
                "level_note": note,
                "technique": TECH,
            })
        else:
            na.append({"property_id": pid, "reason": NA.get(pid, "check not built yet in this session (engine stage pending); not claimed")})
    m = {
        "version": 1,
        "setup_cmd": "./setup.sh",
        "hooks": {
            "guard": "verif",
            "enable": "no hook lives in /repo: the harness module (/verif/harness, files tagged //go:build verif) imports the repository through `replace github.com/theory/sqljson => /repo` and drives exported API only; the engine re-lowers /repo's working tree to SSA on every run",
            "baseline_off_cmd": baseline_cmd,
            "source_commits": [],
            "add_only": True,
        },
        "engines": [{"name": "gosymx", "path": "/verif/engine", "serves_properties": sorted(CHECKS), "kind_free_text": "symbolic executor for Go SSA with SMT back ends (bounded model checking of the real code)"}],
        "checks": checks,
        "not_applicable": na,
        "notes": "Every result reads: holds for all values within the stated bounds; outside the bounds nothing is claimed. See DESIGN.md.",
    }
    json.dump(m, open('/verif/MANIFEST.json', 'w'), indent=1)

main()
