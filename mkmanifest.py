#!/usr/bin/env python3
"""Regenerates MANIFEST.json from the table below (kept in one place so that
the manifest stays valid while checks are added)."""
import json

BASE_OFF = open('/root/.vp/BASELINE.json').read()
baseline_cmd = json.loads(BASE_OFF)["cmd"]

TECH = "bounded symbolic execution of the real Go code (own go/ssa -> SMT-LIB executor), z3 4.8.12 + z3 5.1 + cvc5 portfolio; counterexamples replayed natively"

# id -> (text, note, design_ref)
CHECKS = {
 "C11": ("Complete Kleene truth tables of && || ! `is unknown` exists (incl. the non-suppressible error as an operand outcome), commutativity, double negation, De Morgan, at top level, inside a filter and through Match, lax and strict: every path of the real exec code over symbolic operand items is decided by the solver; holds for all operand values within the bound.",
         "Operands are `$v == 1` with $v any null/bool/finite float64/string(<=1 byte) item, or a missing variable; connective nesting depth 1 (De Morgan: 2). Error messages opaque. Known finding listed for `is unknown` swallowing the unknown-variable error.", "6 C11"),
 "C13": ("For `$a op $b` (5 operators), unary +/- over sequences, operand-singleton rule and the commutativity/negation identities, every path of execMathOp/executeIntegerMath/executeFloatMath etc. is executed with unconstrained symbolic operands in each of int64, float64, json.Number(int), json.Number(float); integer results are compared with exact 65/128-bit arithmetic in the solver, float results with SMT IEEE-754 terms. unsat = holds for every operand value.",
         "Full 64-bit operands for + - / % and unary minus. For `*` and for the |remainder|<|divisor| bound the full-width *proof* is beyond all three solvers (60 s): counterexample search is full width, queries that stay unknown are counted in the evidence as undecided. math.Mod is a contract stub (sign, magnitude, finiteness). Out-of-float64-range json.Number excluded here (C05).", "6 C13"),
}

CHECKS.update({
 "C07": ("Every accessor/filter chain of up to 2 (thorough: 3) steps from {.a .b .* [*] [0] [1] [last] [0 to 1] [0,1] .** ?(@.a == 1) ?(exists(@.a)) ?(@[*] > 0)} is executed in lax and in strict mode by the real exec code on every document shape within the bound (kinds forced lazily, leaves symbolic), and compared with a reference walk written from the documented rules: lax never errs; strict raises the suppressible class exactly when the walk meets a structural mismatch, at whatever array or subscript-list position; items agree in both modes.",
         "Documents: depth <= 2, width <= 2, keys {a,b}, leaves null / finite float64 (thorough: depth 3, strings). Subscripts directly below .** in strict mode are excluded (the property speaks of member accessors only; the port raises where PostgreSQL skips). The reference evaluator (harness/ref.go) is part of the trusted base.", "6 C07"),
 "C12": ("The six comparison operators, starts with, and the lax/strict sequence rules are executed by the real compareItems/compareNumeric/executePredicate code on symbolic pairs and triples of items of every kind and numeric representation (int64, float64, json.Number int/float, strings as symbolic bytes); results are compared with an exact order computed in the solver (int64 vs float64 by floor/fraction case split, no rounding), and duality, union, negation, trichotomy and transitivity are checked as relations between executions.",
         "Strings <= 2 bytes (thorough 4); arrays of <= 2 items per side for the sequence rules; transitivity triples over float64/int64/string in quick, plus json.Number in thorough. like_regex (flag translation, matching) is not decided here: regexp is stdlib (see C04 for flags). Datetime ordering is C17.", "6 C12"),
 "C14": ("Arrays of every length 0..3 (thorough 5) with lazily shaped elements (JSON null included), a non-array document, and subscript forms [$i] [$i to $j] [$i,$j] [last] [$i to last] [last - 1 to $j] [0, $i to $j] plus nested subscripts, with every bound an unconstrained number (int64 / float64 / json.Number): items and error class are compared with slice arithmetic in the reference evaluator for both modes.",
         "Known finding listed: an element that is JSON null is dropped (pinned by the repository's own TestExecArrayIndex/skip_nil, so not repaired); every other divergence is still reported under a different label.", "6 C14"),
 "C15": ("`.*`, `[*]`, `.**`, `.**{k}`, `.**{a to b}`, `.**{last}` and member/wildcard accessors after `.**` are executed on every JSON tree shape within the bound (empty arrays and objects included) and compared, as multisets where object member order is open and in pre-order otherwise, with an explicit tree walk; level bounds are also symbolic (ast.NewAny on unconstrained ints in -1..2^32), and .** == .**{0 to last}, .**{1}.**{1} == .**{2} are checked as relations between executions.",
         "Trees: depth <= 2, width <= 2, keys {a,b} (thorough depth 3). Object member order is left open (multiset comparison).", "6 C15"),
})

POOL = "the path pool of harness/pool.go (about 107 paths covering every executor node kind: accessors, wildcards, subscripts incl. erroring subscript expressions, recursive descent, filters incl. nested, arithmetic, predicates as items, all item methods except datetime, variables, literals), lax and strict, on lazily shaped symbolic documents (null, bool, finite float64, json.Number as integer / non-integer / outside float64 range, ASCII strings <= 1 byte, arrays and objects to depth 2) and symbolic variables"
CHECKS.update({
 "C05": ("Query, First, Exists, Match and ExistsOrMatch are executed symbolically over " + POOL + ", with and without WithSilent: no Go panic on any path (explicit panics, nil dereference, index/slice bounds, failed type assertions and division by zero are built-in checks of the executor), every error wraps ErrExecution or is NULL from the boolean entry points, ErrInvalid is never returned, every returned float64 is finite, the document and the variables are frozen (any store into them is detected), and every returned container is a sub-value of an input or a keyvalue() triple. C05_Wide repeats the frame condition on arrays of three null-or-number elements (as the document, as a member and as a variable) through 16 paths that loop over ranges and sequences.",
         "Bounds as stated (quick: width 1, thorough: width 2, strings 2 bytes). Datetime methods are not in the pool (time.Parse is stdlib; C17/C18 not claimed), so the known ErrInvalid from comparing a datetime with a non-datetime is outside this check. regexp matching and math.Mod are uninterpreted/contract stubs; strconv.ParseFloat is interpreted from its real source for symbolic strings.", "6 C05"),
 "C06": ("The five entry points are run on identical symbolic inputs over " + POOL + " and related: First = head of Query with the same error class; Exists agrees with the emptiness of a successful Query, never answers true when the complete evaluation yields nothing, and in strict mode never hides an error Query reports; Match maps a sole boolean / sole null / anything else to (b,nil) / NULL / the single-boolean error (NULL when silent); ExistsOrMatch dispatches on IsPredicate.",
         "Known finding listed: in lax mode a unary +/- over a non-numeric item answers Exists = true (pinned by the repository's own TestExecUnaryMathExpr/nan). Object member order is left open (First is not compared for paths that iterate members).", "6 C06"),
 "C08": ("Each of Query, First, Exists and Match is run with and without WithSilent on identical symbolic inputs over " + POOL + ": the silent run never returns ErrVerbose, equals the verbose run when that succeeds, returns no error (Query/First) or NULL-or-answer (Exists/Match) where the verbose run fails suppressibly -- with exactly the items found before the failure, taken as the partial result of the depth-first reference evaluator -- and returns non-suppressible errors unchanged; in addition 13 paths that evaluate a filter or predicate before an erroring step are compared with the stateless reference evaluator for their error class (the save/restore of the verbose flag).",
         "Non-suppressible errors reachable in the pool: unknown variable, .double() of an unparsable string; TZ casts and .datetime(template) are not in the pool. Cancellation is C20.", "6 C08"),
 "C09": ("For every chain of 2 (thorough 3) steps from 15 step kinds and every split point, Query(P S) is compared with the concatenation over Query(P) of Query($ S, x) including where the first failure falls; $v S is compared with $ S on the same value; and 10 paths that use @, last or $ after a nested filter / nested subscript are compared with a reference evaluator whose environment is passed by value.",
         "Steps following .** in strict mode are excluded, as the property says; keyvalue() is not among the steps (ids depend on addresses). Documents to depth 2 (thorough 3), width 2, keys {a,b}.", "6 C09"),
 "C10": ("For 5 prefix paths x 16 conditions (comparisons, exists, starts with, like_regex, connectives, is unknown, arithmetic, nested filter, methods) the result of P ? (C) is compared with the items of P (unwrapped one level in lax mode) for which the predicate check expression C[@:=$] returns true: same items, same order, same objects (identity) or equal scalars; a suppressible error inside C drops the item, a non-suppressible one aborts; in strict mode consecutive filters equal the filter on the conjunction.",
         "Quick: 3 prefixes; `$.**{1}` as prefix only in lax mode (below .** strict mode skips structural errors inside the condition). like_regex matching is an uninterpreted function (same function on both sides of the relation).", "6 C10"),
 "C20": ("The context is a harness type whose Done() counts polls and reports done from the (k+1)-th poll on, k a symbolic integer in 0..64, so the solver splits on every poll site: for every pool path and 18 paths through the constructs that consume (status, error) pairs, lax and strict, silent and verbose, Canceled and DeadlineExceeded, all four entry points, a cancellation observed at any poll yields an error wrapping ErrExecution and the cause, not ErrVerbose, not NULL, with no items, and at most 2 further polls.",
         "Cancellation is observed only through Done() polls of the executor (as the property's mechanism says); k <= 64 covers every poll of the paths and documents in the bound.", "6 C20"),
})

CHECKS.update({
 "C02": ("The real printer (AST.String with strconv.Quote) and the real lexer/parser are executed on symbolic inputs and composed: every BMP code point (1-3 symbolic UTF-8 bytes; astral by sample) as string / key / variable content next to characters that interact with escaping; every operator as operand of every other operator with and without trailing accessors (fully parenthesised generator, depth 2); all .** bound combinations; integer and non-integer literal spellings with symbolic digits; the pool paths through MarshalText/Binary, Value/Scan. Checked: the printed text parses, the tree (walked through exported accessors) and mode/predicate flags are unchanged, String is a fixed point.",
         "Symbolic bytes are decided by exhaustive evaluation of the path condition over their small domain (<= 16 bits at a time) instead of an SMT call where possible; larger domains go to the solver. Known findings listed: exists/!/is unknown followed by an accessor print unparsable text, and integral numeric literals (4.0) print as integers -- both pinned by the repository's own ast tests. 'Returns the same results on every document' follows from tree equality and is not executed separately.", "6 C02"),
 "C03": ("Token value independent of what follows (two symbolic ASCII bytes, escapes included, at end of input vs before white space / newline / an operator, for keys, variables and strings); every escape form with symbolic hex digits against a reference decoder (lone surrogates and NUL rejected); decimal/hex/octal/binary/underscore integer spellings against digit-sum arithmetic; keywords in every letter case (true/false/null lower case only); all ordered pairs of binary operators, connectives, comparisons, unary signs and redundant parentheses against the documented precedence table; white space and comments at every token boundary; IsPredicate/PgIndexOperator on the pool.",
         "Exponent/fraction number forms: value goes through strconv.ParseFloat (covered only for round-tripping in C02). Non-ASCII identifier characters: xid is modelled by the unicode tables without the NFKC closure step. Token texts of <= 3 bytes.", "6 C03"),
 "C04": ("Parse is executed on every string of <= 3 ASCII bytes (thorough 4), every string of <= 2 arbitrary bytes in 8 lexical contexts (thorough 4), every 3-byte sequence behind 5 lead bytes (thorough all 16) as a token, inside an identifier and inside a string, integer literals crossing the int64 range in all four radixes and numeric literals with exponents far outside float64 (symbolic digits), all sign sequences of length <= 3 before 10 operand kinds, 44 near-misses of the validity rules, and like_regex flag strings x 17 patterns: never a panic (built-in check), never both nil, errors wrap ErrPath and ErrParse; MustParse panics iff Parse errs; Scan/UnmarshalText/UnmarshalBinary fail on the same inputs with ErrScan wrapping ErrParse; an accepted like_regex executes without panicking.",
         "Hangs: every path runs under a step budget of 2M SSA instructions (none was exhausted). Longer inputs are outside the bound. regexp/syntax.Parse and regexp.MustCompile run natively on concrete patterns.", "6 C04"),
 "C19": ("Interleavings are not explored; the schedule-quantified property is reduced to a frame condition that is decided over inputs: with the parsed path, document, variables and all package-level state (goyacc tables, parser switches, error values) frozen, no entry point, String or Parse performs a store, map update or append into frozen memory on any symbolic path over the pool; plus: a query returns the same result and String whatever was executed on the same *Path before.",
         "Sound for race freedom under the Go memory model provided stdlib calls behind stubs (regexp.MustCompile, time, reflect) are goroutine-safe as documented. Native confirmation of a counterexample compares a deep dump of the frozen objects before and after the call (value-changing writes only).", "6 C19"),
})

CHECKS.update({
 "C01": ("Query is compared with a reference evaluator written from the documented rules (harness/ref.go, environment passed by value) on the same symbolic inputs: over the path pool, over generated paths head x <=2 accessor steps x 32 tails (arithmetic, comparisons, methods, filters incl. nested, subscripts), and over 19 iteration paths on two-entry documents each taken plain, under exists() and under $ ? (exists()), lax and strict: same items in the same order (multiset where object member order is open) and the same error class; predicate check expressions return exactly one of true / false / null.",
         "The reference evaluator is the trusted oracle; where the rules leave a result open (float remainder values, string->number parsing, keyvalue ids, .size() and subscripts on non-arrays below .** in strict mode, lax exists() after a partial result) it declines and nothing is asserted. Known findings listed under their own labels: null elements dropped by subscripts; `is unknown` swallowing the unknown-variable error. WithTZ / context zone and datetime methods are decided in C17. Quick: documents of width 1 for generated paths, numbers as float64 (representation pairs are C12/C13/C16).", "6 C01"),
 "C16": ("Numeric methods (.floor .ceiling .abs .double .number .integer .bigint .boolean) on unconstrained symbolic numbers in int64 / float64 / json.Number form against rounding-and-range oracles stated in the solver (RNA rounding, -2^63 <= round(x) < 2^63, int32 range, integrality); every method x every input kind for acceptance, suppressible rejection, lax unwrapping and strict rejection of arrays, .type() names and .size(); string inputs for .boolean() (all documented words in every letter case, and every 2-byte ASCII string), .integer()/.bigint() (decimal text crossing the int32/int64 limits, symbolic digits), .double()/.number(); .decimal(p,s) over precision/scale boundary values with the rounded value and the digit rule (carries included) checked in integer arithmetic; keyvalue() triples, sorted keys, ids equal within / distinct across objects and stable; .string() round trips for booleans and int64.",
         ".decimal(): values sign*(byte*{1,100}) + {0,.5,.25,.99}; scales -2..2 for the digit rule. keyvalue ids: symbolic addresses under an allocator model in which addresses grow in allocation order (collisions of objects on opposite sides of the base object are outside the claim and cannot be replayed). .string() of floats and string->float values rely on strconv (stdlib).", "6 C16"),
 "C17": ("The 5 x 6 cast matrix (which casts succeed and to which type, which are `format not recognized`, which fail non-suppressibly without WithTZ), the 5 x 5 comparison matrix (incomparable kinds unknown; zone-less vs zone-aware needs WithTZ), operator duality, transitivity over triples, and cast/compare coherence (a op b == cast(a) op cast(b) for the common type) are executed on datetime strings of all five types with a symbolic digit (day / hour / offset), in the UTC, fixed-offset and America/New_York context zones; .time(p) etc. round fractional seconds (symbolic digits, carries past the minute and midnight) to min(p,6) digits, compared with time.Round.",
         "time.Parse / time.Date / Format run natively once the symbolic digits have been forked over their small domain (decided by evaluation, not by an SMT call): this is bounded-exhaustive over the grid, and says nothing about strings outside it; which strings parse to which type is time.Parse (stdlib). Quick: 4 fixed offsets; thorough: quarter-hour offsets -12:00..+14:00.", "6 C17"),
 "C18": ("UnmarshalJSON of all five types on every byte string of length 0..10 (symbolic bytes; time.Parse stubbed as error-or-instant) and on the JSON token kinds: an error, never a panic; a well-formed body between two symbolic delimiter bytes is accepted exactly when both are double quotes; String -> ParseTime, Marshal -> Unmarshal and `.datetime().string()` round trips and the date/timestamp <-> timestamptz commutation with the context zone (UTC, fixed offsets in half-hour steps, America/New_York, Asia/Kolkata; local times that exist in the zone) on a boundary grid of instants (leap day, DST edges, year 1 and 9999) with a symbolic time of day.",
         "As C17: time.* runs natively on the forked grid values; ISO-8601 shape of String() is implied by the ParseTime round trip only.", "6 C18"),
})

NA = {}

def main():
    props = [json.loads(l) for l in open('/verif/properties.jsonl')]
    checks = []
    na = []
    for p in props:
        pid = p["id"]
        if pid in CHECKS:
            text, note, ref = CHECKS[pid]
            checks.append({
                "property_id": pid,
                "quick_cmd": f"./check.sh {pid} quick",
                "thorough_cmd": f"./check.sh {pid} thorough",
                "evidence_file": f"/verif/evidence/{pid}.json",
                "replay_cmd_template": "cd /verif/harness && echo {path} > /tmp/gosymx-one.txt && GOFLAGS=-mod=mod GOPROXY=off go test -tags verif -vet=off -count=1 -v -run '^TestReplay$' . -args -vectors=/tmp/gosymx-one.txt",
                "engine": "gosymx",
                "level_claimed": {"category": "model_checking", "text": text, "design_ref": "DESIGN.md section 4 (" + ref.split()[-1] + ")"},
                "level_note": note,
                "technique": TECH,
            })
        else:
            na.append({"property_id": pid, "reason": NA.get(pid, "check not built yet in this session (engine stage pending); not claimed")})
    m = {
        "version": 1,
        "setup_cmd": "./setup.sh",
        "hooks": {
            "guard": "verif",
            "enable": "no hook lives in /repo: the harness module (/verif/harness, files tagged //go:build verif) imports the repository through `replace github.com/theory/sqljson => /repo` and drives exported API only; the engine re-lowers /repo's working tree to SSA on every run",
            "baseline_off_cmd": baseline_cmd,
            "source_commits": [],
            "add_only": True,
        },
        "engines": [{"name": "gosymx", "path": "/verif/engine", "serves_properties": sorted(CHECKS), "kind_free_text": "symbolic executor for Go SSA with SMT back ends (bounded model checking of the real code)"}],
        "checks": checks,
        "not_applicable": na,
        "notes": "Every result reads: holds for all values within the stated bounds; outside the bounds nothing is claimed. See DESIGN.md.",
    }
    json.dump(m, open('/verif/MANIFEST.json', 'w'), indent=1)

main()
