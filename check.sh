#!/bin/sh
# usage: check.sh <PROPERTY> [quick|thorough]
export GOFLAGS=-mod=mod GOPROXY=off GOSUMDB=off GOTOOLCHAIN=local
cd "$(dirname "$0")"
[ -x bin/check ] || ./setup.sh >/dev/null
exec bin/check --tier "${2:-${VERIF_TIER:-quick}}" "$1"
